"""C07 — references obey aliasing-xor-mutation and never outlive their referent.

Model: coq/Models/Borrow.v (port of internal/hir/analysis/borrow.go over BorLang + loan-liveness spec + store model).
Tie:   generated BorLang event scripts are rendered to Ferret; the borrow diagnostics of the implementation built
       from the working tree (kind, in source order) are compared with the port evaluated in Coq (vm_compute);
       an independent python oracle (loan liveness, true place overlap) decides the property itself:
         impl accepts & oracle(fine) says unsafe      -> soundness violation, shrunk, replay = the program
         impl rejects & oracle(coarse) says respects  -> completeness violation (disjoint fields / expired borrows)
       accepted programs are compiled natively in batches and their output is compared with a reference
       interpreter (write-through visibility in both directions).
"""
import os, re, json, hashlib
import common
from common import Work

# ------------------------------------------------------------------ BorLang (python side)
FN = {0: "A", 1: "B", 2: "N", 3: "Arr", 4: "Ns", 5: "U", 6: "V"}
S_FIELDS = {0: "i32", 1: "i32", 2: "In", 3: "arr3", 4: "arrIn2"}
IN_FIELDS = {5: "i32", 6: "i32"}
TYNAME = {"i32": "i32", "In": "In", "arr3": "[3]i32", "S": "S", "arrIn2": "[2]In"}
VARNAME = {0: "p", 1: "q", 2: "w", 3: "vv", 999: "k"}
VAR_SEED = {0: 0, 1: 100, 2: 200}
XREF = 100            # the reference parameter x
VV = 3                # the by-value i32 parameter

def vname(v):
    return VARNAME[v] if v in VARNAME else "n%d" % v
def rname(r):
    return "x" if r == XREF else "r%d" % r
def var_type(v):
    return "S" if v in (0, 1, 2) else "i32"

def place_type(pl):
    t = var_type(pl[0])
    for s in pl[1]:
        if s[0] == "f":
            t = (S_FIELDS if t == "S" else IN_FIELDS)[s[1]]
        else:
            t = {"arr3": "i32", "arrIn2": "In"}[t]
    return t

def all_paths():
    ps = [(), (("f", 0),), (("f", 1),), (("f", 2),), (("f", 2), ("f", 5)), (("f", 2), ("f", 6)), (("f", 3),), (("f", 4),)]
    for i in (0, 1, 2, None):
        ps.append((("f", 3), ("i", i)))
    for i in (0, 1, None):
        ps.append((("f", 4), ("i", i)))
        ps.append((("f", 4), ("i", i), ("f", 5)))
        ps.append((("f", 4), ("i", i), ("f", 6)))
    return ps
PATHS = all_paths()

def r_place(pl):
    s = vname(pl[0])
    for g in pl[1]:
        s += "." + FN[g[1]] if g[0] == "f" else "[%s]" % ("k" if g[1] is None else g[1])
    return s

def mk_val(k):
    return {0: k + 1, 1: k + 2, 2: {5: k + 3, 6: k + 4}, 3: [k + 5, k + 6, k + 7],
            4: [{5: k + 8, 6: k + 9}, {5: k + 10, 6: k + 11}]}

def val_of(t, c):
    if t == "i32": return c
    if t == "In": return {5: c, 6: c + 1}
    if t == "arr3": return [c, c + 1, c + 2]
    if t == "arrIn2": return [{5: c, 6: c + 1}, {5: c + 2, 6: c + 3}]
    return mk_val(c)

def r_val(t, c):
    if t == "i32": return "%d" % c
    if t == "In": return "{ .U = %d, .V = %d } as In" % (c, c + 1)
    if t == "arr3": return "[%d, %d, %d]" % (c, c + 1, c + 2)
    if t == "arrIn2": return "[{ .U = %d, .V = %d } as In, { .U = %d, .V = %d } as In]" % (c, c + 1, c + 2, c + 3)
    return "mk(%d)" % c

USE_SUFFIX = {"i32": "", "In": ".U", "arr3": "[0]", "S": ".A", "arrIn2": "[0].U"}
USE_PATH = {"i32": (), "In": (5,), "arr3": (0,), "S": (0,), "arrIn2": (0, 5)}
WT_SUFFIX = {"i32": "", "In": ".V", "arr3": "[1]", "S": ".B", "arrIn2": "[1].V"}
WT_PATH = {"i32": (), "In": (6,), "arr3": (1,), "S": (1,), "arrIn2": (1, 6)}

HEADER = """import "std/io";
type In struct { .U: i32, .V: i32 };
type S struct { .A: i32, .B: i32, .N: In, .Arr: [3]i32, .Ns: [2]In };
fn mk(k: i32) -> S { return { .A = k + 1, .B = k + 2, .N = { .U = k + 3, .V = k + 4 }, .Arr = [k + 5, k + 6, k + 7], .Ns = [{ .U = k + 8, .V = k + 9 }, { .U = k + 10, .V = k + 11 }] } as S; }
"""

def is_cref(c): return c is not None and c[0] == "ref"
def is_cplace(c): return c is not None and c[0] != "ref"
def cond_val(c, store, refs):
    """value (>= 0 test) of a place / reference condition in the reference interpreter"""
    if is_cref(c): return sget(store, refs[c[1]])
    return sget(store, (c[0], cpath(c[1])))
def r_cond(prog, c, neg):
    if c is None: return "cF" if neg else "cT"
    if is_cref(c): return "%s%s(%s)" % ("!" if neg else "", "pM" if prog.rtypes[c[1]][1] else "pS", rname(c[1]))
    return "%s %s 0" % (r_place(c), "<" if neg else ">=")
COND_HELPERS = ("fn pS(a: &i32) -> bool { let t: i32 = a; return t >= 0; }\n"
                "fn pM(a: &'i32) -> bool { let t: i32 = a; return t >= 0; }\n")

def if_style(t):
    """how the else part of ('if', c, b1, b2, neg[, style]) is written: 'else' = `else { b2 }`, 'elif' = `else if ...` (b2 is
    exactly one if statement; the model keeps it as SIf c b1 [SIf ...]: the checker walks a nested *hir.IfStmt exactly like
    a block holding only that if statement, whose scope declares nothing), 'noelse' = no else part (b2 empty)"""
    st = t[5] if len(t) > 5 else "else"
    if st == "elif" and not (len(t[3]) == 1 and t[3][0][0] == "if"): return "else"
    if st == "noelse" and t[3]: return "else"
    return st

def helper_src(sig):
    ps, body = [], []
    for i, ch in enumerate(sig):
        a = "a%d" % i
        if ch == "M": ps.append("%s: &'i32" % a); body.append("let t%d: i32 = %s; %s = t%d + 1000;" % (i, a, a, i))
        elif ch == "S": ps.append("%s: &i32" % a); body.append("io::Println(%s);" % a)
        elif ch == "N": ps.append("%s: &'In" % a); body.append("let t%d: i32 = %s.U; %s.U = t%d + 1000;" % (i, a, a, i))
        elif ch == "O": ps.append("%s: &In" % a); body.append("io::Println(%s.V);" % a)
        elif ch == "V": ps.append("%s: i32" % a); body.append("io::Println(%s);" % a)
        elif ch == "D":
            ps.append("%s: &S" % a)
            for l in ("A", "B", "N.U", "N.V", "Arr[0]", "Arr[1]", "Arr[2]", "Ns[0].U", "Ns[0].V", "Ns[1].U", "Ns[1].V"):
                body.append("io::Println(%s.%s);" % (a, l))
    return "fn h_%s(%s) { %s }\n" % (sig, ", ".join(ps), " ".join(body))

class Prog:
    def __init__(self, body, retmut, rtypes):
        self.body = body; self.retmut = retmut; self.rtypes = rtypes   # rtypes: ref -> (type, mut)

def arg_sig(prog, a):
    if a[0] == "bor":
        t = place_type(a[2])
        if t == "S": return "D"
        return {("i32", True): "M", ("i32", False): "S", ("In", True): "N", ("In", False): "O"}[(t, a[1])]
    if a[0] == "rd": return "V"
    return "M" if prog.rtypes[a[1]][1] else "S"

def ref_tyname(t, m):
    return ("&'" if m else "&") + TYNAME[t]

def render_stmts(prog, ss, ind, out, sigs, cnt):
    pad = "  " * ind
    for s in ss:
        k = s[0]
        if k == "var":
            v = s[1]
            # a third of the locals are declared without initialiser and assigned by the next statement: the checker must
            # treat them like every other local (seed C07e: such locals were not recorded, `return &slot` accepted)
            import zlib
            late = zlib.crc32(repr((prog.body, v)).encode()) % 3 == 0
            if v in VAR_SEED: init, ty = "mk(%d)" % VAR_SEED[v], "S"
            elif v == 999: init, ty = "1", "i32"
            else: init, ty = "0", "i32"
            nm = "k" if v == 999 else vname(v)
            if late: out.append("%slet %s: %s; %s = %s;" % (pad, nm, ty, nm, init))
            else: out.append("%slet %s: %s = %s;" % (pad, nm, ty, init))
        elif k == "let":
            _, r, m, pl = s
            out.append("%slet %s: %s = %s%s;" % (pad, rname(r), ref_tyname(place_type(pl), m), "&'" if m else "&", r_place(pl)))
        elif k == "copy":
            t, m = prog.rtypes[s[1]]
            out.append("%slet %s: %s = %s;" % (pad, rname(s[1]), ref_tyname(t, m), rname(s[2])))
        elif k == "use":
            out.append("%sio::Println(%s%s);" % (pad, rname(s[1]), USE_SUFFIX[prog.rtypes[s[1]][0]]))
        elif k == "wt":
            out.append("%s%s%s = %d;" % (pad, rname(s[1]), WT_SUFFIX[prog.rtypes[s[1]][0]], s[2]))
        elif k == "read":
            t = place_type(s[1])
            if t == "i32": out.append("%sio::Println(%s);" % (pad, r_place(s[1])))
            else:
                cnt[0] += 1
                out.append("%slet c%d: %s = %s;" % (pad, cnt[0], TYNAME[t], r_place(s[1])))
        elif k == "write":
            pl = s[1]
            if pl[0] >= 1000: out.append("%s%s = %s + 1;" % (pad, vname(pl[0]), vname(pl[0])))
            else: out.append("%s%s = %s;" % (pad, r_place(pl), r_val(place_type(pl), s[2])))
        elif k == "call":
            sig = "".join(arg_sig(prog, a) for a in s[1]); sigs.add(sig)
            xs = []
            for a in s[1]:
                if a[0] == "bor":
                    bx = ("&'" if a[1] else "&") + r_place(a[2])
                    # a third of the borrowed arguments pass through a call that hands its reference argument back: the loan
                    # lasts as long as the outer call all the same (seed C07f: loans of a nested call released when it returns)
                    import zlib
                    if zlib.crc32(repr((prog.body, s, a)).encode()) % 3 == 0:
                        pt = place_type(a[2]); pn = "pass%s_%s" % ("M" if a[1] else "S", pt)
                        sigs.add("PASS:%s:%s" % ("M" if a[1] else "S", pt))
                        bx = "%s(%s)" % (pn, bx)
                    xs.append(bx)
                elif a[0] == "rd": xs.append(r_place(a[1]))
                else: xs.append(rname(a[1]))
            out.append("%sh_%s(%s);" % (pad, sig, ", ".join(xs)))
        elif k == "block":
            out.append(pad + "{"); render_stmts(prog, s[1], ind + 1, out, sigs, cnt); out.append(pad + "}")
        elif k == "if":
            def emit_if(t, head):
                c, b1, b2, neg = t[1], t[2], t[3], t[4]
                cond = r_cond(prog, c, neg)
                out.append("%s %s {" % (head, cond)); render_stmts(prog, b1, ind + 1, out, sigs, cnt)
                st = if_style(t)
                if st == "elif": emit_if(b2[0], pad + "} else if")       # real else-if syntax: Else is a nested *hir.IfStmt
                elif st == "noelse": out.append(pad + "}")
                else:
                    out.append(pad + "} else {"); render_stmts(prog, b2, ind + 1, out, sigs, cnt); out.append(pad + "}")
            emit_if(s, pad + "if")
        elif k == "while":
            _, c, b, n = s
            cond = "%s < 2" % vname(n) + ("" if c is None else " && " + r_cond(prog, c, False))
            out.append("%swhile %s {" % (pad, cond)); render_stmts(prog, b, ind + 1, out, sigs, cnt); out.append(pad + "}")
        elif k == "retbor":
            out.append("%sreturn %s%s;" % (pad, "&'" if s[1] else "&", r_place(s[2])))
        elif k == "retref":
            out.append("%sreturn %s;" % (pad, rname(s[1])))
        else:
            raise ValueError(k)

def render_fn(prog, name, sigs):
    rt = ref_tyname("i32", prog.retmut)
    out = ["fn %s(cT: bool, cF: bool, x: %s, vv: i32) -> %s {" % (name, rt, rt)]
    render_stmts(prog, prog.body, 1, out, sigs, [0])
    out.append("}")
    return "\n".join(out) + "\n"

def render_main(progs_named):
    out = ["fn main() {"]
    for i, (name, prog) in enumerate(progs_named):
        out.append('  io::Println("#%s");' % name)
        out.append("  let g%d: i32 = 5;" % i)
        out.append("  let rr%d: %s = %s(true, false, %sg%d, 7);" % (i, ref_tyname("i32", prog.retmut), name, "&'" if prog.retmut else "&", i))
        out.append("  io::Println(rr%d);" % i)
    out.append("}")
    return "\n".join(out) + "\n"

def render_file(progs_named):
    sigs = set(); fns = [render_fn(p, n, sigs) for n, p in progs_named]
    passes = sorted(x for x in sigs if x.startswith("PASS:"))
    psrc = ""
    for x in passes:
        _, m, pt = x.split(":")
        rt = ref_tyname(pt, m == "M")
        psrc += "fn pass%s_%s(r: %s) -> %s {\n  return r;\n}\n" % (m, pt, rt, rt)
    return (HEADER + COND_HELPERS + psrc + "".join(helper_src(s) for s in sorted(sigs) if not s.startswith("PASS:")) + "".join(fns)
            + render_main(progs_named))

# ------------------------------------------------------------------ reference interpreter (write-through visibility)
class Ret(Exception):
    def __init__(self, tgt): self.tgt = tgt

def cpath(path):
    return tuple((g[1] if g[0] == "f" else (1 if g[1] is None else g[1])) for g in path)

def sget(store, tgt):
    v = store[tgt[0]]
    for c in tgt[1]: v = v[c]
    return v
def sset(store, tgt, x):
    if not tgt[1]:
        store[tgt[0]] = x; return
    v = store[tgt[0]]
    for c in tgt[1][:-1]: v = v[c]
    v[tgt[1][-1]] = x

import copy as _copy
def interp(prog):
    store = {"g": 5, VV: 7}; refs = {XREF: ("g", ())}; out = []
    def run(ss):
        for s in ss:
            k = s[0]
            if k == "var":
                v = s[1]; store[v] = mk_val(VAR_SEED[v]) if v in VAR_SEED else (1 if v == 999 else 0)
            elif k == "let": refs[s[1]] = (s[3][0], cpath(s[3][1]))
            elif k == "copy": refs[s[1]] = refs[s[2]]
            elif k == "use":
                t = refs[s[1]]; out.append(str(sget(store, (t[0], t[1] + USE_PATH[prog.rtypes[s[1]][0]]))))
            elif k == "wt":
                t = refs[s[1]]; sset(store, (t[0], t[1] + WT_PATH[prog.rtypes[s[1]][0]]), s[2])
            elif k == "read":
                if place_type(s[1]) == "i32": out.append(str(sget(store, (s[1][0], cpath(s[1][1])))))
            elif k == "write":
                pl = s[1]
                if pl[0] >= 1000: store[pl[0]] += 1
                else: sset(store, (pl[0], cpath(pl[1])), _copy.deepcopy(val_of(place_type(pl), s[2])))
            elif k == "call":
                vals = []
                for a in s[1]:
                    if a[0] == "bor": vals.append((arg_sig(prog, a), (a[2][0], cpath(a[2][1]))))
                    elif a[0] == "rd": vals.append(("V", sget(store, (a[1][0], cpath(a[1][1])))))
                    else: vals.append((arg_sig(prog, a), refs[a[1]]))
                for ch, x in vals:
                    if ch == "M": sset(store, x, sget(store, x) + 1000)
                    elif ch == "S": out.append(str(sget(store, x)))
                    elif ch == "N": sset(store, (x[0], x[1] + (5,)), sget(store, (x[0], x[1] + (5,))) + 1000)
                    elif ch == "O": out.append(str(sget(store, (x[0], x[1] + (6,)))))
                    elif ch == "V": out.append(str(x))
                    elif ch == "D":
                        v = sget(store, x)
                        out.extend(str(z) for z in (v[0], v[1], v[2][5], v[2][6], v[3][0], v[3][1], v[3][2],
                                                     v[4][0][5], v[4][0][6], v[4][1][5], v[4][1][6]))
            elif k == "block": run(s[1])
            elif k == "if":
                c = (not s[4]) if s[1] is None else ((cond_val(s[1], store, refs) < 0) if s[4] else (cond_val(s[1], store, refs) >= 0))
                run(s[2] if c else s[3])
            elif k == "while":
                it = 0
                while store[s[3]] < 2 and (s[1] is None or cond_val(s[1], store, refs) >= 0):
                    run(s[2]); it += 1
                    if it > 50: raise RuntimeError("loop")
            elif k == "retbor": raise Ret((s[2][0], cpath(s[2][1])))
            elif k == "retref": raise Ret(refs[s[1]])
    try:
        run(prog.body)
    except Ret as r:
        out.append(str(sget(store, r.tgt)))
    return out

# ------------------------------------------------------------------ python oracle (spec side; independent of the port)
def mentions(s):
    k = s[0]
    if k in ("use", "wt", "retref"): return [s[1]]
    if k == "copy": return [s[2]]
    if k == "call": return [a[1] for a in s[1] if a[0] == "ref"]
    if k == "block": return [r for x in s[1] for r in mentions(x)]
    if k == "if": return ([s[1][1]] if is_cref(s[1]) else []) + [r for x in s[2] + s[3] for r in mentions(x)]
    if k == "while": return ([s[1][1]] if is_cref(s[1]) else []) + [r for x in s[2] for r in mentions(x)]
    return []
def decls_deep(s):
    k = s[0]
    if k in ("let", "copy"): return [s[1]]
    if k == "block": return [r for x in s[1] for r in decls_deep(x)]
    if k == "if": return [r for x in s[2] + s[3] for r in decls_deep(x)]
    if k == "while": return [r for x in s[2] for r in decls_deep(x)]
    return []
def vars_deep(s):
    k = s[0]
    if k == "var": return [s[1]]
    if k == "block": return [r for x in s[1] for r in vars_deep(x)]
    if k == "if": return [r for x in s[2] + s[3] for r in vars_deep(x)]
    if k == "while": return [r for x in s[2] for r in vars_deep(x)]
    return []

def true_overlap(a, b):
    for x, y in zip(a, b):
        if x[0] != y[0]: return False
        if x[0] == "f":
            if x[1] != y[1]: return False
        elif x[1] is not None and y[1] is not None and x[1] != y[1]:
            return False
    return True
def conservative_overlap(a, b):
    for x, y in zip(a, b):
        if x[0] == "i" or y[0] == "i": return True
        if x != y: return False
    return True

def oracle(prog, fine, value_params=(VV,)):
    """Returns the list of rule violations [(kind, stmt-text)].  fine=True: true overlap + a loan is live while its
    reference is mentioned in the continuation (statement granularity).  fine=False: index-conservative overlap +
    liveness per statement of the declaring block (what the language documents as accepted)."""
    overlap = true_overlap if fine else conservative_overlap
    L = set(value_params) | {v for s in prog.body for v in vars_deep(s)}
    bad = []
    def live_loans(G, live):
        return [l for l in G if l[0] is None or l[0] in live]
    def c_borrow(G, live, pl, m, s):
        for l in live_loans(G, live):
            if l[1] == pl[0] and overlap(pl[1], l[2]) and (m or l[3]):
                bad.append(("borrow", s)); return
    def c_read(G, live, pl, s):
        for l in live_loans(G, live):
            if l[1] == pl[0] and overlap(pl[1], l[2]) and l[3]:
                bad.append(("read", s)); return
    def c_write(G, live, pl, s):
        for l in live_loans(G, live):
            if l[1] == pl[0] and overlap(pl[1], l[2]):
                bad.append(("write", s)); return
    def find(G, r):
        for l in G:
            if l[0] == r: return l
        return None
    def block(ss, K, G):
        G = list(G)
        ments = [set(mentions(s)) for s in ss]
        dtop = [([s[1]] if s[0] in ("let", "copy") else []) for s in ss]
        for j, s in enumerate(ss):
            later = set().union(*ments[j + 1:]) if j + 1 < len(ss) else set()
            if fine:
                Kin = later | K
            else:
                # block granularity: references of this block mentioned (or declared) in statement j or later
                Kin = later | ments[j] | K
            G = stmt(s, Kin, G)
    def stmt(s, K, G):
        k = s[0]; txt = repr(s)[:80]
        if k == "let":
            c_borrow(G, K, s[3], s[2], txt); return [(s[1], s[3][0], s[3][1], s[2])] + G
        if k == "copy":
            l = find(G, s[2])
            if l is None: return G
            c_borrow(G, K, (l[1], l[2]), l[3], txt); return [(s[1], l[1], l[2], l[3])] + G
        if k == "read": c_read(G, K, s[1], txt)
        elif k == "write": c_write(G, K, s[1], txt)
        elif k == "call":
            K2 = K | set(mentions(s)); T = list(G)
            for a in s[1]:
                if a[0] == "bor":
                    c_borrow(T, K2, a[2], a[1], txt); T = [(None, a[2][0], a[2][1], a[1])] + T
                elif a[0] == "rd": c_read(T, K2, a[1], txt)
        elif k == "block":
            block(s[1], K - set(decls_deep(s)), G)
        elif k == "if":
            if is_cplace(s[1]): c_read(G, K | set(mentions(s)), s[1], txt)
            block(s[2], K - set(x for y in s[2] for x in decls_deep(y)), G)
            block(s[3], K - set(x for y in s[3] for x in decls_deep(y)), G)
        elif k == "while":
            K2 = K | set(mentions(s))
            if is_cplace(s[1]): c_read(G, K2, s[1], txt)
            block(s[2], K2 - set(decls_deep(s)), G)
        elif k == "retbor":
            c_borrow(G, K, s[2], s[1], txt)
            if s[2][0] in L: bad.append(("ret-param" if s[2][0] in value_params else "ret-local", txt))
        elif k == "retref":
            l = find(G, s[1])
            if l is not None and l[1] in L: bad.append(("ret-param" if l[1] in value_params else "ret-local", txt))
        return G
    block(prog.body, set(), [])
    return bad

# ------------------------------------------------------------------ generator
class Gen:
    def __init__(self, rng, allow_ret_param=True, maxev=14):
        self.rng = rng; self.allow_ret_param = allow_ret_param; self.maxev = maxev

    def related(self, pl):
        """places related to pl: itself, prefixes, extensions, siblings, other index, other variable"""
        v, p = pl
        out = [pl, pl]
        for q in PATHS:
            if q == p: continue
            n = min(len(p), len(q))
            if q[:n] == p[:n]: out.append((v, q))                       # prefix / extension
            elif len(q) == len(p) and q[:-1] == p[:-1]: out.append((v, q))   # sibling field / other index
            elif n >= 2 and q[0] == p[0] and q[1][0] == "i": out.append((v, q))  # other element, deeper/shallower
        out.append((1 - v if v in (0, 1) else 0, p))
        return out

    def program(self):
        rng = self.rng
        self.retmut = rng.random() < 0.4
        self.rtypes = {XREF: ("i32", self.retmut)}
        self.nref = 0; self.ncnt = 1000; self.const = 10; self.used_w = False; self.events = 0
        self.vars = [0] + ([1] if rng.random() < 0.35 else [])
        self.budget = rng.randint(3, self.maxev)
        base = (0, rng.choice(PATHS))
        self.focus = self.related(base)
        self.need_k = False
        body = self.block(0, [XREF], list(self.vars) + [VV], self.budget, top=True)
        pre = [("var", v) for v in self.vars]
        if self.need_k: pre.append(("var", 999))
        post = [("call", [("bor", False, (v, ()))]) for v in self.vars] + [("retref", XREF)]
        return Prog(pre + body + post, self.retmut, self.rtypes)

    def fresh_const(self):
        self.const += 10; return self.const

    def pick_place(self, vars_, want=None):
        rng = self.rng
        for _ in range(30):
            if rng.random() < 0.8:
                pl = rng.choice(self.focus)
            else:
                v = rng.choice(vars_); pl = (v, rng.choice(PATHS) if var_type(v) == "S" else ())
            if rng.random() < 0.06 and VV in vars_: pl = (VV, ())
            if pl[0] not in vars_: continue
            if var_type(pl[0]) != "S" and pl[1]: continue
            if want is not None and place_type(pl) not in want: continue
            if any(g[0] == "i" and g[1] is None for g in pl[1]): self.need_k = True
            return pl
        return None

    def pick_ref(self, refs, pred=None):
        c = [r for r in refs if pred is None or pred(r)]
        if not c: return None
        if self.rng.random() < 0.6: return c[-1]
        return self.rng.choice(c)

    def pick_cond(self, refs, vars_, pref, pplace):
        """condition: a call taking an i32 reference in scope (a use of the reference), a comparison reading a place, or a flag"""
        y = self.rng.random()
        if y < pref:
            r = self.pick_ref(refs, lambda r: self.rtypes[r][0] == "i32")
            if r is not None: return ("ref", r)
        if y < pref + pplace:
            return self.pick_place(vars_, want=("i32",))
        return None

    def gen_if(self, depth, refs, vars_, sub, chain):
        """if / else-if chain (chain = number of else-if arms, 0..3) / plain else / no else"""
        rng = self.rng
        c = self.pick_cond(refs, vars_, 0.3, 0.35)
        b1 = self.block(depth + 1, refs, vars_, sub, want_ret=rng.random() < 0.3)
        neg = rng.random() < 0.3
        if chain > 0:
            return ("if", c, b1, [self.gen_if(depth, refs, vars_, rng.randint(1, 3), chain - 1)], neg, "elif")
        if rng.random() < 0.5:
            return ("if", c, b1, self.block(depth + 1, refs, vars_, rng.randint(0, 2)), neg, "else")
        return ("if", c, b1, [], neg, "noelse")

    def block(self, depth, refs, vars_, n, top=False, want_ret=False):
        rng = self.rng; refs = list(refs); vars_ = list(vars_); out = []
        i = 0
        while i < n and self.events < self.budget + 4:
            i += 1; self.events += 1
            x = rng.random()
            if x < 0.26:
                pl = self.pick_place(vars_)
                if pl is None: continue
                m = rng.random() < 0.55
                r = self.nref; self.nref += 1
                self.rtypes[r] = (place_type(pl), m)
                out.append(("let", r, m, pl)); refs.append(r)
            elif x < 0.48:
                r = self.pick_ref(refs)
                if r is None: continue
                # gate: `r[1] = v` through r: &'[3]i32 hits the same miscompiled i32 element store as `a[1] = v` (F-C07-elem-store)
                if self.rtypes[r][1] and self.rtypes[r][0] != "arr3" and rng.random() < 0.5: out.append(("wt", r, self.fresh_const()))
                else: out.append(("use", r))
            elif x < 0.60:
                pl = self.pick_place(vars_)
                if pl is not None: out.append(("read", pl))
            elif x < 0.72:
                pl = self.pick_place(vars_)
                if pl is not None and not (place_type(pl) == "In" and any(g[0] == "i" for g in pl[1])):
                    if pl[1] and pl[1][-1][0] == "i":
                        # gate: a plain store `a[i] = v` to an i32 array element is miscompiled on this tree (garbage is
                        # stored; no reference involved, C04/C18 territory) -> the element is written through its parent
                        continue
                    out.append(("write", pl, self.fresh_const()))
            elif x < 0.80:
                args = []
                for _ in range(rng.randint(1, 3)):
                    y = rng.random()
                    if y < 0.5:
                        pl = self.pick_place(vars_, want=("i32", "In"))
                        if pl is not None: args.append(("bor", rng.random() < 0.5, pl))
                    elif y < 0.8:
                        pl = self.pick_place(vars_, want=("i32",))
                        if pl is not None: args.append(("rd", pl))
                    else:
                        r = self.pick_ref(refs, lambda r: self.rtypes[r][0] == "i32")
                        if r is not None: args.append(("ref", r))
                if args: out.append(("call", args))
            elif x < 0.85:
                r = self.pick_ref(refs)
                if r is None: continue
                r2 = self.nref; self.nref += 1
                self.rtypes[r2] = self.rtypes[r]
                out.append(("copy", r2, r)); refs.append(r2)
            elif x < 0.96 and depth < 2:
                kind = rng.choice(["block", "if", "while", "block", "if"])
                sub = rng.randint(1, 4)
                if kind == "block":
                    out.append(("block", self.block(depth + 1, refs, vars_, sub)))
                elif kind == "if":
                    out.append(self.gen_if(depth, refs, vars_, sub, rng.choice([0, 1, 1, 2, 3])))
                else:
                    c = self.pick_cond(refs, vars_, 0.2, 0.3)
                    n_ = self.ncnt; self.ncnt += 1
                    b = self.block(depth + 1, refs, vars_, sub)
                    out.append(("var", n_)); out.append(("while", c, b + [("write", (n_, ()), 0)], n_))
            elif depth >= 1 and not self.used_w and rng.random() < 0.5:
                self.used_w = True; out.append(("var", 2)); vars_.append(2)
                self.focus = self.focus + [(2, ()), (2, (("f", 0),)), (2, (("f", 0),))]
        if want_ret:
            # a return as the last statement of an if-branch
            y = rng.random()
            if y < 0.5:
                cands = [v for v in vars_ if v != VV or self.allow_ret_param]
                pl = None
                for _ in range(20):
                    q = self.pick_place(cands, want=("i32",))
                    if q is not None and (q[0] != VV or self.allow_ret_param): pl = q; break
                if pl is not None: out.append(("retbor", self.retmut, pl))
            else:
                r = self.pick_ref(refs, lambda r: self.rtypes[r] == ("i32", self.retmut))
                if r is not None: out.append(("retref", r))
        return out

def scenario_programs(allow_ret_param):
    """hand-written boundary scripts (the smoke_test/extra/2x_borrow_*.fer situations and the property's clauses)"""
    A = (0, (("f", 0),)); B = (0, (("f", 1),)); N = (0, (("f", 2),)); NU = (0, (("f", 2), ("f", 5)))
    AR0 = (0, (("f", 3), ("i", 0))); AR1 = (0, (("f", 3), ("i", 1))); P = (0, ())
    out = []
    def P_(body, retmut=False, rt=None):
        rtypes = {XREF: ("i32", retmut)}; rtypes.update(rt or {})
        return Prog([("var", 0)] + body + [("call", [("bor", False, (0, ()))]), ("retref", XREF)], retmut, rtypes)
    i32m = ("i32", True); i32s = ("i32", False)
    out.append(P_([("let", 0, True, A), ("read", A), ("wt", 0, 20)], rt={0: i32m}))            # read while &' live
    out.append(P_([("let", 0, True, A), ("wt", 0, 20), ("read", A)], rt={0: i32m}))            # expired: accepted
    out.append(P_([("let", 0, True, A), ("read", B), ("wt", 0, 20), ("read", A)], rt={0: i32m}))  # disjoint field
    out.append(P_([("let", 0, False, A), ("write", A, 30), ("use", 0)], rt={0: i32s}))         # write while & live
    out.append(P_([("let", 0, False, A), ("read", A), ("use", 0)], rt={0: i32s}))              # read while & live ok
    out.append(P_([("let", 0, False, A), ("use", 0), ("let", 1, True, A), ("wt", 1, 12), ("read", A)], rt={0: i32s, 1: i32m}))  # 20_borrow_conflict, last use passed
    out.append(P_([("let", 0, False, A), ("let", 1, True, A), ("wt", 1, 12), ("use", 0)], rt={0: i32s, 1: i32m}))
    out.append(P_([("let", 0, False, AR0), ("let", 1, True, AR1), ("wt", 1, 3), ("use", 0)], rt={0: i32s, 1: i32m}))  # 24 index conservative
    out.append(P_([("let", 0, True, N), ("write", NU, 4), ("wt", 0, 5)], rt={0: ("In", True)}))    # prefix overlap
    out.append(P_([("let", 0, True, NU), ("let", 1, True, N), ("wt", 0, 4)], rt={0: i32m, 1: ("In", True)}))
    out.append(P_([("let", 0, True, P), ("wt", 0, 4), ("read", A), ("write", A, 6), ("use", 0)], rt={0: ("S", True)}))
    out.append(P_([("let", 0, True, A), ("block", [("use", 0), ("write", A, 9)])], rt={0: i32m}))  # block granularity
    out.append(P_([("let", 0, True, A), ("block", [("write", A, 9)]), ("use", 0)], rt={0: i32m}))
    out.append(P_([("block", [("let", 0, True, A), ("wt", 0, 3)]), ("write", A, 9), ("read", A)], rt={0: i32m}))  # scope exit
    out.append(P_([("var", 1000), ("while", None, [("let", 0, True, A), ("wt", 0, 3), ("read", A), ("write", (1000, ()), 0)], 1000)], rt={0: i32m}))
    out.append(P_([("let", 0, True, A), ("var", 1000), ("while", None, [("read", A), ("wt", 0, 3), ("write", (1000, ()), 0)], 1000)], rt={0: i32m}))
    out.append(P_([("call", [("bor", True, A), ("bor", False, A)])]))
    out.append(P_([("call", [("bor", True, A), ("rd", A)])]))
    out.append(P_([("call", [("rd", A), ("bor", True, A)])]))
    out.append(P_([("call", [("bor", True, A), ("bor", False, B)]), ("read", A)]))
    out.append(P_([("let", 0, False, A), ("copy", 1, 0), ("use", 0), ("write", A, 5), ("use", 1)], rt={0: i32s, 1: i32s}))  # copy keeps loan
    out.append(P_([("let", 0, False, A), ("copy", 1, 0), ("use", 1), ("use", 0), ("write", A, 5)], rt={0: i32s, 1: i32s}))
    out.append(P_([("if", None, [("retbor", False, A)], [], False)]))                                               # 22 return local
    out.append(P_([("let", 0, False, A), ("if", None, [("retref", 0)], [], True)], rt={0: i32s}))
    out.append(P_([("copy", 0, XREF), ("if", None, [("retref", 0)], [], False)], rt={0: i32s}))                     # 23 return param ref
    out.append(P_([("block", [("var", 2), ("let", 0, False, (2, (("f", 0),))), ("if", None, [("retref", 0)], [], False)])], rt={0: i32s}))
    # else-if chains: the last use of a reference lies in an else-if arm (depth 1..3), in a plain else, in a then-block
    def chain(depth, arm, last_else=None):
        t = ("if", None, arm if depth == 0 else [("read", B)], [] if last_else is None else last_else, True, "noelse" if last_else is None else "else")
        if depth == 0: return t
        inner = chain(depth - 1, arm, last_else)
        return ("if", None, [("read", B)], [inner], True, "elif")
    def cchain(depth, c):
        """the reference is used only by the condition of the last else-if"""
        if depth == 0: return ("if", c, [("read", B)], [], False, "noelse")
        return ("if", None, [("read", B)], [cchain(depth - 1, c)], True, "elif")
    for d in (0, 1, 2):
        out.append(P_([("let", 0, True, A), ("write", A, 20), cchain(d, ("ref", 0))], rt={0: i32m}))
        out.append(P_([("let", 0, False, A), ("read", A), cchain(d, ("ref", 0)), ("write", A, 20)], rt={0: i32s}))
    out.append(P_([("let", 0, False, A), ("var", 1000), ("while", ("ref", 0), [("write", A, 20), ("write", (1000, ()), 0)], 1000)], rt={0: i32s}))
    for d in (1, 2, 3):
        out.append(P_([("let", 0, True, A), ("wt", 0, 11), ("write", A, 20), chain(d, [("wt", 0, 30)])], rt={0: i32m}))     # bad_elseif
        out.append(P_([("let", 0, False, A), ("write", A, 20), chain(d, [("use", 0)])], rt={0: i32s}))                      # bad_shared_elseif
        out.append(P_([("let", 0, True, A), ("read", A), chain(d, [("use", 0)])], rt={0: i32m}))
        out.append(P_([("let", 0, True, A), ("let", 1, False, A), chain(d, [("wt", 0, 30)])], rt={0: i32m, 1: i32s}))
        out.append(P_([("let", 0, True, A), chain(d, [("wt", 0, 30)]), ("write", A, 20), ("read", A)], rt={0: i32m}))         # good: expired after the chain
        out.append(P_([("let", 0, True, A), ("write", A, 20), chain(d, [("read", B)], last_else=[("wt", 0, 30)])], rt={0: i32m}))  # use in the final plain else
        out.append(P_([("let", 0, True, A), ("wt", 0, 5), ("write", A, 20), chain(d, [("read", A)])], rt={0: i32m}))          # good: really expired
    if allow_ret_param:
        out.append(P_([("if", None, [("retbor", False, (VV, ()))], [], False)]))
        out.append(P_([("let", 0, True, (VV, ())), ("if", None, [("retref", 0)], [], False)], retmut=True, rt={0: i32m}))
    return out

# ------------------------------------------------------------------ Coq rendering
def c_seg(g):
    if g[0] == "f": return "SF %d" % g[1]
    return "SI None" if g[1] is None else "SI (Some %d)" % g[1]
def c_place(pl):
    return "(%d, [%s])" % (pl[0], "; ".join(c_seg(g) for g in pl[1]))
def c_b(b): return "true" if b else "false"
def c_cond(c):
    if c is None: return "CNone"
    if is_cref(c): return "(CRef %d)" % c[1]
    return "(CPl %s)" % c_place(c)
def c_stmt(s):
    k = s[0]
    if k == "var": return "SVar %d" % s[1]
    if k == "let": return "SLet %d %s %s" % (s[1], c_b(s[2]), c_place(s[3]))
    if k == "copy": return "SCopy %d %d" % (s[1], s[2])
    if k == "use": return "SUse %d" % s[1]
    if k == "wt": return "SWt %d" % s[1]
    if k == "read": return "SRead %s" % c_place(s[1])
    if k == "write": return "SWrite %s" % c_place(s[1])
    if k == "call":
        xs = []
        for a in s[1]:
            if a[0] == "bor": xs.append("ABor %s %s" % (c_b(a[1]), c_place(a[2])))
            elif a[0] == "rd": xs.append("ARd %s" % c_place(a[1]))
            else: xs.append("ARef %d" % a[1])
        return "SCall [%s]" % "; ".join(xs)
    if k == "block": return "SBlock %s" % c_stmts(s[1])
    if k == "if": return "SIf %s %s %s" % (c_cond(s[1]), c_stmts(s[2]), c_stmts(s[3]))
    if k == "while": return "SWhile %s %s" % (c_cond(s[1]), c_stmts(s[2]))
    if k == "retbor": return "SRetBor %s %s" % (c_b(s[1]), c_place(s[2]))
    if k == "retref": return "SRetRef %d" % s[1]
    raise ValueError(k)
def c_stmts(ss): return "[" + "; ".join(c_stmt(s) for s in ss) + "]"

# ------------------------------------------------------------------ implementation side
MSG = [("cannot access", "while it is mutably borrowed", 1), ("cannot modify", "while it is mutably borrowed", 2),
       ("cannot modify", "while it is immutably borrowed", 3), ("as mutable because it is already mutably borrowed", "", 4),
       ("as mutable because it is also borrowed as immutable", "", 5), ("as immutable because it is already mutably borrowed", "", 6),
       ("cannot return reference to local", "", 7)]
DIAG = re.compile(r"error(?:\[(\w+)\])?: (.*?)\s+--> \S+?:(\d+):(\d+)")

def parse_diags(res):
    """-> list of codes sorted by source position; 99 = any other error, 98 = panic / failure without a diagnostic"""
    if res["panic"]: return [98]
    ds = []
    for m in DIAG.finditer(res["out"]):
        code = 99
        for a, b, c in MSG:
            if a in m.group(2) and b in m.group(2): code = c; break
        ds.append((int(m.group(3)), int(m.group(4)), code))
    ds.sort()
    codes = [c for _, _, c in ds]
    if not res["ok"] and not codes: return [98]
    if res["ok"] and codes: return [97] + codes
    return codes

def typecheck_progs(progs, work, prefix):
    srcs = [render_file([("t0", p)]) for p in progs]
    rs = common.batch_typecheck_sources(srcs, work, prefix=prefix)
    return srcs, [parse_diags(r) for r in rs]

PROBES = {
 "ret-value-param": ("F-C07-ret-value-param", HEADER + "fn f(vv: i32) -> &i32 {\n  return &vv;\n}\nfn main() {\n  let r: &i32 = f(3);\n  io::Println(r);\n}\n",
                     "a reference to a by-value parameter is returned (dangles after return) and accepted"),
 "call-returned-ref": ("F-C07-call-returned-ref", HEADER + "fn id(x: &'i32) -> &'i32 {\n  return x;\n}\nfn main() {\n  let p: S = mk(0);\n  let r: &'i32 = id(&'p.A);\n  p.A = 7;\n  r = 21;\n  io::Println(p.A);\n}\n",
                       "a mutable reference obtained from a call keeps no loan: the referent is written while the reference is still used"),
 "reborrow-through-ref": ("F-C07-reborrow-through-ref", HEADER + "fn g(x: &'S) {\n  let r: &'i32 = &'x.A;\n  x.A = 3;\n  r = 4;\n  io::Println(x.A);\n}\nfn main() {\n  let p: S = mk(0);\n  g(&'p);\n}\n",
                          "a re-borrow through a reference parameter is not tracked: x.A is written while r = &'x.A is still used"),
}

def run_probes(run, work):
    names = sorted(PROBES)
    rs = common.batch_typecheck_sources([PROBES[n][1] for n in names], work, prefix="probe")
    st = {}
    for n, r in zip(names, rs):
        st[n] = r["ok"]
        run.case(("probe", n), True)
        if r["ok"]:
            run.count("probe_defect_present")
            run.violation(PROBES[n][0], "C07 " + PROBES[n][2], {"program": PROBES[n][1], "expected": "rejected by the borrow checker",
                                                               "observed": "accepted by ferret -t"})
    return st

ELEM_PROBE = HEADER + "fn main() {\n  let a: [3]i32 = [1, 2, 3];\n  let r: &'[3]i32 = &'a;\n  r[1] = 50;\n  io::Println(a[1]);\n  let p: S = mk(0);\n  let m: &'i32 = &'p.Arr[2];\n  m = 60;\n  io::Println(p.Arr[2]);\n}\n"

def run_elem_probe(run, work):
    """write-through to an array element via a reference to the array: expected output 50, 60"""
    d = work.sub("elemprobe"); f = os.path.join(d, "main.fer"); open(f, "w").write(ELEM_PROBE)
    exe = os.path.join(d, "prog")
    r = common.batch_compile([dict(id=0, file=f, mode="native", out=exe)], nproc=1)[0]
    run.case(("probe", "elem-store"), True)
    if not r["ok"] or not os.path.exists(exe):
        return
    rc, so, se = common.run_exe(exe)
    got = so.split()
    if got != ["50", "60"]:
        run.count("probe_defect_present")
        run.violation("F-C07-elem-store" if got[1:] == ["60"] else "elem-store:" + " ".join(got)[:60],
                      "C07 write through r: &'[3]i32 (`r[1] = 50`) is not visible in the array: observed %s" % got,
                      {"program": ELEM_PROBE, "expected_output": ["50", "60"], "observed_output": got})

def prog_key(src):
    return "prog:" + hashlib.sha256(src.encode()).hexdigest()[:16]

# ------------------------------------------------------------------ shrinking (python-decidable violations)
def subprograms(prog):
    """all programs obtained by deleting one statement (at any depth), keeping the prologue/epilogue"""
    res = []
    def rec(ss, rebuild):
        for i, s in enumerate(ss):
            if not (s[0] == "retref" and s[1] == XREF and rebuild is top):
                res.append(rebuild(ss[:i] + ss[i + 1:]))
            k = s[0]
            if k == "block": rec(s[1], lambda b, i=i, s=s, ss=ss, rb=rebuild: rb(ss[:i] + [("block", b)] + ss[i + 1:]))
            elif k == "if":
                rec(s[2], lambda b, i=i, s=s, ss=ss, rb=rebuild: rb(ss[:i] + [("if", s[1], b, s[3], s[4]) + tuple(s[5:])] + ss[i + 1:]))
                rec(s[3], lambda b, i=i, s=s, ss=ss, rb=rebuild: rb(ss[:i] + [("if", s[1], s[2], b, s[4]) + tuple(s[5:])] + ss[i + 1:]))
            elif k == "while":
                rec(s[2], lambda b, i=i, s=s, ss=ss, rb=rebuild: rb(ss[:i] + [("while", s[1], b, s[3])] + ss[i + 1:]))
    def top(b): return Prog(b, prog.retmut, prog.rtypes)
    rec(prog.body, top)
    return res

def shrink(prog, pred, work, tag):
    """pred(prog, codes) -> bool. Greedy one-statement deletion while the violation persists."""
    for rnd in range(25):
        cands = subprograms(prog)
        if not cands: break
        _, codes = typecheck_progs(cands, work, "%s_%d_" % (tag, rnd))
        nxt = None
        for c, cd in zip(cands, codes):
            if all(x <= 7 for x in cd) and pred(c, cd):
                nxt = c; break
        if nxt is None: break
        prog = nxt
    return prog

# ------------------------------------------------------------------ main
def n_stmts(ss):
    n = 0
    for s in ss:
        n += 1
        if s[0] == "block": n += n_stmts(s[1])
        elif s[0] == "if": n += n_stmts(s[2]) + n_stmts(s[3])
        elif s[0] == "while": n += n_stmts(s[2])
    return n

def main(run):
    work = Work()
    rng = run.rng
    run.rule = ("BorLang event scripts (<= ~18 statements, nesting <= 2: let &/&' of a place, copy, use, write-through, read/"
                "write of a related place, call with &/&'/value/reference arguments, block/if/while, return &place / return r) "
                "over places of a struct with scalar, nested-struct, array and array-of-struct fields; places are drawn from a "
                "focus set of related places (same / prefix / extension / sibling field / other index / other variable); "
                "a case is distinct by its statement list")
    run.trusted += ["harness/c07.py: renderer BorLang -> Ferret, diagnostic-kind parser, python loan-liveness oracle and reference interpreter",
                    "hooks/batch (in-process compiler.Compile) for type-check verdicts; native executables for outputs"]
    run.assumptions = ["references are introduced by `let r = &pl / &'pl / r2` inside one function; bases are variables (not reference "
                       "parameters); references stored in structs, obtained from calls, closures, for-loops, match, defer are outside BorLang",
                       "a reference is identified by its declaration (symbols are unique): wf = NoDup of declared references",
                       "liveness of a loan = its reference (or nothing else) is mentioned in the continuation; dynamic indices may denote any element"]
    import time as _t; T0 = _t.time(); tm = {}
    ok = run.proof("Props/C07.v")
    tm['proof'] = round(_t.time() - T0, 1)

    st = run_probes(run, work)
    run_elem_probe(run, work)
    patched = not st["ret-value-param"]
    run.extra["tree_has_param_local_fix"] = patched
    run.extra["gates"] = (["return of &vv (by-value parameter) is not generated because F-C07-ret-value-param is open on this tree"] if not patched else []) + \
                         ["direct stores to i32 array elements (`p.Arr[i] = v`, `r[1] = v` with r: &'[3]i32) are not generated: the element store is "
                          "miscompiled independently of references (F-C07-elem-store); elements are written through &'i32 element references instead",
                          "In-typed stores under an index (`p.Ns[i] = {..}`) are not generated: qbe reports 'unsupported store type' (not a reference matter)",
                          "by-value struct parameters / struct arguments are not used: small structs passed by value arrive as garbage (not a reference matter)"] + \
                         ["reference bases (re-borrow through a reference parameter) and references returned by calls are not generated: "
                          "F-C07-reborrow-through-ref / F-C07-call-returned-ref are open; they are exercised by fixed probes"]
    model_params = [VV] if patched else []

    nrand = 330 if run.tier == "quick" else 8000
    gen = Gen(rng, allow_ret_param=patched, maxev=14 if run.tier == "quick" else 18)
    progs = scenario_programs(patched) + [gen.program() for _ in range(nrand)]
    srcs, codes = typecheck_progs(progs, work, "c")

    tm['typecheck'] = round(_t.time() - T0, 1)
    fine = [oracle(p, True) for p in progs]
    coarse = [oracle(p, False) for p in progs]
    viol = []
    for i, p in enumerate(progs):
        acc = (codes[i] == [])
        run.case(c_stmts(p.body), True, sample=({"program": srcs[i], "diagnostic_kinds": codes[i], "oracle": [k for k, _ in fine[i]]} if i in (1, 40, 41) else None))
        run.count("accepted" if acc else "rejected")
        run.count("stmts_%02d-%02d" % (n_stmts(p.body) // 5 * 5, n_stmts(p.body) // 5 * 5 + 4))
        for c in set(codes[i]): run.count("diag_kind_%d" % c)
        run.count("oracle_fine_" + ("safe" if not fine[i] else "unsafe"))
        run.count("oracle_coarse_" + ("safe" if not coarse[i] else "unsafe"))
        if fine[i] and not coarse[i]:
            raise RuntimeError("oracle inconsistency (fine unsafe, coarse safe): %s" % c_stmts(p.body))
        if not fine[i] and coarse[i]: run.count("conservatively_rejected_by_design")
        if any(c >= 97 for c in codes[i]):
            viol.append((i, "front", "generated program fails outside the borrow checker (codes %s)" % codes[i])); continue
        if acc and fine[i]:
            if not patched and all(k_ == "ret-param" for k_, _ in fine[i]):
                run.count("known_ret_value_param"); run.violation("F-C07-ret-value-param", "reference to by-value parameter returned", {"program": srcs[i]})
                continue
            viol.append((i, "sound", "accepted although it violates the reference rules: %s" % fine[i][0][0]))
        if not acc and not coarse[i]:
            viol.append((i, "complete", "rejected (kinds %s) although every conflicting access is disjoint or after the last use" % codes[i]))

    # ---- correspondence with the port (and Coq spec vs python oracle), evaluated inside Coq
    bad = []
    shard = 400
    for k in range(0, len(progs), shard):
        lines = ["From Coq Require Import List ZArith.", "From FV Require Import Models.Borrow.", "Import ListNotations.",
                 "Definition cases : list case := ["]
        cs = []
        for i in range(k, min(k + shard, len(progs))):
            p = progs[i]
            cs.append("  (%d%%Z, [%s], %s, [%s]%%Z, %s)" % (i, "; ".join(str(v) for v in model_params), c_stmts(p.body),
                                                         "; ".join(str(c) for c in codes[i]), c_b(not oracle(p, True, value_params=tuple(model_params)))))
        lines.append(";\n".join(cs)); lines.append("]."); lines.append("Eval vm_compute in (bad_ids cases).")
        okc, out = common.coq_eval("C07_%d_%d" % (run.seed, k), "\n".join(lines) + "\n")
        ids = common.parse_bad_ids(out)
        if not okc or ids is None:
            run.violation("coq-eval:C07", "the BorLang cases could not be evaluated in Coq", {"log": out[-3000:]}, no_input=True)
            return
        bad += ids
    run.extra["model_mismatches"] = len(bad)
    tm['coq_cases'] = round(_t.time() - T0, 1)

    reported = set()
    for b in bad:
        i = b % 1000000; kind = b // 1000000
        if kind == 1:
            raise RuntimeError("Coq spec and python oracle disagree on case %d: %s" % (i, c_stmts(progs[i].body)))
        if kind == 2 and not patched and all(k_ == "ret-param" for k_, _ in fine[i]):
            continue
        if i in reported: continue
        reported.add(i)
        what = ("port and implementation emit different borrow diagnostics" if kind == 0 else
                "the port accepts a program the Coq specification calls unsafe")
        # is it also a violation of the property on the implementation?
        pv = [v for v in viol if v[0] == i]
        if pv: continue        # reported below with the sharper message
        if len(reported) > 4: continue   # keep the report short: the first mismatches are enough to replay
        run.violation(prog_key(srcs[i]), "%s; implementation kinds %s; no rule violation decided by the oracle for this input "
                      "(the model no longer describes the code)" % (what, codes[i]),
                      {"program": srcs[i], "borlang": c_stmts(progs[i].body), "implementation_kinds": codes[i],
                       "correspondence": "Models/Borrow.v bc vs internal/hir/analysis/borrow.go"}, no_input=True)

    for i, kind, what in viol[:6]:
        p = progs[i]
        if kind == "sound":
            p = shrink(p, lambda q, cd: cd == [] and bool(oracle(q, True)), work, "sh%d" % i)
        elif kind == "complete":
            p = shrink(p, lambda q, cd: cd != [] and not oracle(q, False), work, "sh%d" % i)
        src = render_file([("t0", p)])
        run.violation(prog_key(src), "C07 %s" % what,
                      {"program": src, "borlang": c_stmts(p.body), "kind": kind,
                       "oracle_fine": oracle(p, True), "oracle_block_granular": oracle(p, False),
                       "expected": "rejected" if kind == "sound" else "accepted", "run": "ferret -t main.fer"})

    if not ok:
        where, log = run.proof_failure
        run.violation("proof:C07:" + where, "Props/C07 no longer checks (%s)" % where,
                      {"theorem_file": "coq/Props/C07.v", "where": where, "log": log}, no_input=True)

    tm['report_shrink'] = round(_t.time() - T0, 1)
    # ---- write-through visibility: accepted programs, batched natively
    accd = [i for i in range(len(progs)) if codes[i] == [] and not fine[i]]
    per = 25
    batches = [accd[k:k + per] for k in range(0, len(accd), per)]
    if run.tier == "quick": batches = batches[:8]
    reqs = []
    for bi, b in enumerate(batches):
        d = work.sub("run%d" % bi)
        f = os.path.join(d, "main.fer")
        open(f, "w").write(render_file([("t%d" % i, progs[i]) for i in b]))
        reqs.append(dict(id=bi, file=f, mode="native", out=os.path.join(d, "prog")))
    res = common.batch_compile(reqs, nproc=min(4, max(1, len(reqs)))) if reqs else {}
    nrun = [0]
    def check_output(b, exe):
        rc, so, se = common.run_exe(exe, timeout=20)
        seg = {}; cur = None
        for line in so.splitlines():
            if line.startswith("#"): cur = line[1:]; seg[cur] = []
            elif cur is not None: seg[cur].append(line.strip())
        for i in b:
            exp = interp(progs[i]); got = seg.get("t%d" % i)
            nrun[0] += 1
            run.count("executed")
            if got != exp:
                src = render_file([("t%d" % i, progs[i])])
                run.violation(prog_key(src), "C07 write-through visibility: output of an accepted program differs from the reference semantics",
                              {"program": src, "expected_output": exp, "observed_output": got, "rc": rc, "stderr": se[-500:]})
                break
    todo = []
    for bi, b in enumerate(batches):
        r = res[bi]
        if not r["ok"] or not os.path.exists(reqs[bi]["out"]):
            # a back-end failure on one function (e.g. QBE rega assertion; not a reference matter) must not hide the others:
            # recompile the members one by one and skip the ones that do not build
            run.count("native_batch_failed")
            if len(todo) < 60: todo += b
        else:
            check_output(b, reqs[bi]["out"])
    if todo:
        reqs2 = []
        for i in todo:
            d = work.sub("one%d" % i); f = os.path.join(d, "main.fer")
            open(f, "w").write(render_file([("t%d" % i, progs[i])]))
            reqs2.append(dict(id=i, file=f, mode="native", out=os.path.join(d, "prog")))
        res2 = common.batch_compile(reqs2, nproc=4)
        for q in reqs2:
            if res2[q["id"]]["ok"] and os.path.exists(q["out"]): check_output([q["id"]], q["out"])
            else: run.count("native_backend_failure_skipped")
    run.extra["executed_programs"] = nrun[0]
    tm['native'] = round(_t.time() - T0, 1)
    run.extra['stage_seconds_cumulative'] = tm

def replay(run, path):
    r = json.load(open(path))
    rp = r.get("replay", {})
    print(json.dumps({k: v for k, v in r.items() if k != "replay"}, indent=1))
    if "program" in rp:
        work = Work()
        res = common.batch_typecheck_sources([rp["program"]], work, prefix="rp")[0]
        print(rp["program"])
        print("ferret -t: %s  kinds=%s (expected: %s)" % ("accepted" if res["ok"] else "rejected", parse_diags(res), rp.get("expected", "?")))
        return 0 if (rp.get("expected") == ("accepted" if res["ok"] else "rejected")) else 1
    print(json.dumps(rp, indent=1)[:4000])
    return 0
