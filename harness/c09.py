"""C09 — behaviour does not depend on what the compiler can evaluate early.
Proof stage: Props/C09.v (local semantic equalities of the reference for the rewrite kinds).
Tie (metamorphic): accepted FerretCore program p x applicable site x rewrite kind -> p'; the compiler must give the
same verdict on p and p' and both executables must print the same output (each also equal to the reference)."""
import os, json, hashlib, copy
import common, core, c01, c03
from common import Work

KINDS = ["lit-call", "bind-subexpr", "let-const", "if-true"]

def call_free(e):
    k = e[0]
    if k in ("call", "callvar"): return False
    if k == "bin": return call_free(e[2]) and call_free(e[3])
    if k == "un": return call_free(e[2])
    if k == "cast": return call_free(e[1])
    if k == "slit": return all(call_free(a) for a in e[2])
    if k == "field": return call_free(e[1])
    return True

def stmt_call_free(s):
    k = s[0]
    if k == "let": return call_free(s[3])
    if k == "assign": return call_free(s[2])
    if k == "cassign": return call_free(s[3])
    if k == "assignf": return call_free(s[3])
    if k == "cassignf": return call_free(s[4])
    if k == "print": return all(call_free(a) for a in s[1])
    return False

def assigned_vars(prog):
    """variables that are assigned, or lent by mutable reference (neither may become `const`)"""
    out = set()
    pts = [[t for _, t in f["params"]] for f in prog]
    def we(e):
        if not isinstance(e, (list, tuple)) or not e: return
        if e[0] == "call":
            for i, a in enumerate(e[2]):
                if 0 <= e[1] < len(pts) and i < len(pts[e[1]]) and core.is_mutref(pts[e[1]][i]) and a[0] == "var": out.add(a[1])
                we(a)
        elif e[0] == "bin": we(e[2]); we(e[3])
        elif e[0] == "un": we(e[2])
        elif e[0] in ("cast", "field"): we(e[1])
        elif e[0] == "slit":
            for a in e[2]: we(a)
    def wb(b):
        for s in b:
            for part in s[1:]:
                if isinstance(part, (list, tuple)) and part and isinstance(part[0], str): we(part)
                elif isinstance(part, (list, tuple)):
                    for q in part:
                        if isinstance(q, (list, tuple)) and q and isinstance(q[0], str) and q[0] in ("call", "bin", "un", "cast", "field", "slit", "var", "lit", "bool"): we(q)
            if s[0] in ("assign", "cassign", "inc", "assignf", "cassignf"): out.add(s[1])
            elif s[0] == "if": wb(s[2]); wb(s[3])
            elif s[0] == "while": wb(s[2])
            elif s[0] == "block": wb(s[1])
            elif s[0] == "for": wb(s[5])
            elif s[0] == "match":
                for _, b in s[3]: wb(b)
                if s[4] is not None: wb(s[4])
    for f in prog: wb(f["body"])
    return out

def max_var(prog):
    m = [0]
    def we(e):
        if e[0] == "var": m[0] = max(m[0], e[1])
        elif e[0] == "bin": we(e[2]); we(e[3])
        elif e[0] == "un": we(e[2])
        elif e[0] == "cast": we(e[1])
        elif e[0] in ("call", "slit"):
            for a in e[2]: we(a)
        elif e[0] == "field": we(e[1])
    def wb(b):
        for s in b:
            k = s[0]
            if k == "let": m[0] = max(m[0], s[1]); we(s[3])
            elif k == "fnlit": m[0] = max(m[0], s[1], s[2])
            elif k == "assign": we(s[2])
            elif k == "cassign": we(s[3])
            elif k == "assignf": we(s[3])
            elif k == "cassignf": we(s[4])
            elif k == "if": we(s[1]); wb(s[2]); wb(s[3])
            elif k == "while": we(s[1]); wb(s[2])
            elif k == "for":
                m[0] = max(m[0], s[1]); we(s[3]); we(s[4]); wb(s[5])
                if len(s) > 7 and s[7] is not None: we(s[7])
            elif k == "match":
                we(s[1])
                for _, b in s[3]: wb(b)
                if s[4] is not None: wb(s[4])
            elif k == "return" and s[1] is not None: we(s[1])
            elif k == "print":
                for a in s[1]: we(a)
            elif k == "expr": we(s[1])
            elif k == "block": wb(s[1])
    for f in prog:
        for x, _ in f["params"]: m[0] = max(m[0], x)
        wb(f["body"])
    return m[0]

def rewrite(prog, kind, rng):
    """returns (p', description) or None"""
    m = c03.mutable(prog)
    esites, ssites, fns = c03.collect_sites(m)
    rng.shuffle(esites); rng.shuffle(ssites)
    if kind == "lit-call":
        for s in esites:
            e = s.get()
            if e[0] == "lit" and s.ctx[-1] != "recursion-arg":
                # not the first argument of a recursive call pattern (kept literal so that depth stays bounded — it still is: same value)
                newf = dict(params=[], ret=e[1], body=[["return", ["lit", e[1], e[2]]]])
                idx = len(m) - 1
                m.insert(idx, newf)
                s.set(["call", idx, []])
                return m, "literal %d:%s at %s -> f%d()" % (e[2], e[1], "/".join(s.ctx[-2:]), idx)
    if kind == "bind-subexpr":
        fresh = max_var(m) + 1
        for s in ssites:
            st = s.get()
            if st[0] in ("let", "assign", "cassign", "print") and stmt_call_free(st):
                # candidate subexpressions of this statement
                subs = [x for x in esites if x.holder is not None and _inside(st, x) and x.get()[0] in ("bin", "un", "cast")]
                rng.shuffle(subs)
                for x in subs:
                    e = x.get()
                    t = c03.expr_type(e, x.env, fns)
                    if t is None or t == "void": continue
                    x.set(["var", fresh])
                    s.holder.insert(s.idx, ["let", fresh, t, e, True])
                    return m, "subexpression of type %s bound to const v%d before a %s statement" % (t, fresh, st[0])
    if kind == "let-const":
        av = assigned_vars(m)
        c = [s for s in ssites if s.get()[0] == "let" and not s.get()[4] and s.get()[1] not in av]
        if c:
            n = 0
            for s in c:
                s.get()[4] = True; n += 1
            return m, "%d never-reassigned let -> const" % n
    if kind == "if-true":
        for s in ssites:
            st = s.get()
            if st[0] in ("assign", "cassign", "inc", "print", "expr", "if", "while", "block", "for", "match"):
                s.set(["if", ["bool", True], [st], []])
                return m, "%s statement wrapped in if true { } at %s" % (st[0], "/".join(s.ctx[-2:]))
    return None

def _inside(st, site):
    """is the expression site located inside statement st (identity walk)"""
    target = site.holder
    def we(e):
        if e is target: return True
        if isinstance(e, list):
            return any(we(x) for x in e if isinstance(x, list))
        return False
    return st is target or we(st)

def edge_family(run, quick):
    """deterministic metamorphic pairs on arithmetic edges: the expression `a op b` (operands opaque: function parameters)
    consumed directly at register width (widened / compared) versus first bound to a fresh immutable local"""
    fam = []
    combos = [(t, op) for t in ("i8", "i16", "u8", "u16", "i32") for op in ("+", "-", "*", "/", "%", "neg")
              if not (op == "neg" and not core.signed(t))]
    always = [(t, op) for (t, op) in combos if core.BITS[t] < 32 and op in ("/", "neg", "*")]
    rest = [c for c in combos if c not in always]
    chosen = always + (run.rng.sample(rest, 8) if quick else rest)
    for t, op in chosen:
        lo, hi = core.tmin(t), core.tmax(t)
        vals = sorted({lo, lo + 1, hi, hi - 1, 0, 1, 2} | ({-1, -2} if core.signed(t) else set()))
        pairs = [(x, y) for x in vals for y in vals]
        if op in ("/", "%"):
            pairs = [(x, y) for x, y in pairs if y != 0 and not (core.BITS[t] >= 32 and core.signed(t) and x == lo and y == -1)]
        if op == "neg":
            pairs = [(x, 1) for x in vals]
        pairs = pairs[:40]
        a, b, q = 1, 2, 3
        e = ("un", "-", ("var", a)) if op == "neg" else ("bin", op, ("var", a), ("var", b))
        thr = ("lit", t, 1)
        def prog(bound):
            if bound:
                fbody = [("let", q, t, e, True), ("return", ("cast", ("var", q), "i64"))]
                gbody = [("let", q, t, e, True), ("return", ("bin", ">", ("var", q), thr))]
            else:
                fbody = [("return", ("cast", e, "i64"))]
                gbody = [("return", ("bin", ">", e, thr))]
            f = dict(params=[(a, t), (b, t)], ret="i64", body=fbody)
            g = dict(params=[(a, t), (b, t)], ret="bool", body=gbody)
            main = dict(params=[], ret="void", body=[("print", [("call", 0, [("lit", t, x), ("lit", t, y)]),
                                                              ("call", 1, [("lit", t, x), ("lit", t, y)])]) for x, y in pairs])
            return [f, g, main]
        fam.append((t, op, prog(False), prog(True)))
    return fam

def literal_init_family(run, quick):
    """source-level pairs: declarations whose initialiser is built from literals only (the three evaluators - type checker
    big-number folding, HIR constant evaluation, run-time code - all see it), once as `let`, once as `const`, once wrapped in
    `if true { }`. No oracle: the property only demands that the variants agree (verdict and output)."""
    r = run.rng
    wide = [False]      # an exact intermediate left the 64-bit range [-2^63, 2^64): the compiler then computes in i128 (open finding)
    def expr(t, depth):
        lo, hi = core.tmin(t), core.tmax(t)
        if depth == 0 or r.random() < 0.25:
            c = r.random()
            if c < 0.4: v = r.choice([0, 1, 2, 3, 5, 7, 10, 100])
            elif c < 0.8: v = r.choice([hi, hi - 1, hi // 2, hi // 2 + 1, hi // 3 * 2, lo, lo + 1] if core.signed(t) else [hi, hi - 1, hi // 2, hi // 2 + 1, hi // 3 * 2])
            else: v = r.randint(lo, hi)
            v = max(lo, min(hi, v))
            if not (-(1 << 63) <= v < (1 << 63)): wide[0] = True      # an operand above the i64 range is typed i128 (same finding)
            return ("(%d)" % v if v < 0 else str(v)), v, v
        op = r.choice(["+", "-", "*", "+", "-", "/", "%"])
        (sa, xa, wa), (sb, xb, wb) = expr(t, depth - 1), expr(t, depth - 1)
        if op in "/%" and (xb == 0 or wb == 0 or (xb == -1) or (wb == -1)):
            sb, xb, wb = "3", 3, 3
        if op == "+": x, w = xa + xb, wa + wb
        elif op == "-": x, w = xa - xb, wa - wb
        elif op == "*": x, w = xa * xb, wa * wb
        elif op == "/":
            x = abs(xa) // abs(xb) * (1 if (xa >= 0) == (xb >= 0) else -1)
            w = abs(wa) // abs(wb) * (1 if (wa >= 0) == (wb >= 0) else -1)
        else:
            x = xa - xb * (abs(xa) // abs(xb) * (1 if (xa >= 0) == (xb >= 0) else -1))
            w = wa - wb * (abs(wa) // abs(wb) * (1 if (wa >= 0) == (wb >= 0) else -1))
        if not (-(1 << 63) <= x < (1 << 63)): wide[0] = True
        return "(%s %s %s)" % (sa, op, sb), x, core.wrap(t, w)
    fam = []
    nprog = 8 if quick else 80
    for k in range(nprog):
        decls = []
        stats = {"fits": 0, "overflowing-intermediate": 0, "final-does-not-fit": 0}
        for j in range(14):
            t = r.choice(core.ITYS)
            if r.random() < 0.4:
                # intermediate beyond the declared range, brought back by a non-ring operation: exact folding and run-time
                # evaluation at the declared width give different values here, so every evaluator must make the same choice
                hi = core.tmax(t)
                a, b = r.randint(hi // 2 + 1, hi), r.randint(hi // 2 + 1, hi)
                d = r.choice([2, 3, 5, 7])
                op1, op2 = r.choice(["+", "*"]) if hi > 200 else "+", r.choice(["/", "%"])
                if op1 == "*": b = r.choice([2, 3])
                s = "((%d %s %d) %s %d)" % (a, op1, b, op2, d)
                xi = a + b if op1 == "+" else a * b
                while not all(-(1 << 63) <= q_ < (1 << 63) for q_ in (a, b, xi)):
                    # keep operands and intermediate inside the i64 range (gate of F-LIT-WIDE-INTERMEDIATE: anything above it is
                    # typed i128); overflow of the declared type is still reached for every type narrower than 64 bits
                    a, b = a // 2, (b // 2 if op1 == "+" else b)
                    s = "((%d %s %d) %s %d)" % (a, op1, b, op2, d)
                    xi = a + b if op1 == "+" else a * b
                wi = core.wrap(t, xi)
                tq = lambda n, m: abs(n) // abs(m) * (1 if (n >= 0) == (m >= 0) else -1)
                x = tq(xi, d) if op2 == "/" else xi - d * tq(xi, d)
                w = tq(wi, d) if op2 == "/" else wi - d * tq(wi, d)
            else:
              for _ in range(40):
                wide[0] = False
                s, x, w = expr(t, r.randint(1, 3))
                if s.startswith("(") and " " in s and not wide[0]: break
              if wide[0]: continue
            fits = core.tmin(t) <= x <= core.tmax(t)
            if not fits and not (k % 4 == 3 and stats["final-does-not-fit"] == 0):
                # three programs in four are acceptable (every exact value fits its declared type; intermediates are free to
                # overflow); the fourth carries exactly one initialiser that does not fit
                continue
            stats["fits" if fits else "final-does-not-fit"] += 1
            if fits and x != w: stats["overflowing-intermediate"] += 1
            decls.append((j, t, s))
        for kw in ("f64",):
            # decimal-exact operands with short results (a folded value with a long expansion is rejected: F-FLOAT-FOLD-DIGITS)
            a, b = r.choice(["1.5", "2.25", "1000000.5", "7.0"]), r.choice(["0.000000000001", "0.125", "0.25", "3.5"])
            decls.append((90, "f64", "(%s %s %s)" % (a, r.choice("+-*"), b)))
        def render(kw, wrap):
            body = []
            for j, t, s in decls:
                body.append("    %s w%d: %s = %s;" % (kw, j, t, s))
            pr = ["    io::Println(%s);" % ", ".join("w%d" % j for j, _, _ in decls[i:i + 4]) for i in range(0, len(decls), 4)]
            if wrap:
                pr = ["    if true {"] + ["    " + l for l in pr] + ["    }"]
            return 'import "std/io";\n\nfn main() {\n' + "\n".join(body + pr) + "\n}\n"
        fam.append((render("let", False), render("const", False), "let-const-literal-init", stats))
        fam.append((render("let", False), render("let", True), "if-true-literal-init", stats))
    return fam

def run_sources(srcs, work, prefix):
    def one(i):
        return common.compile_and_run(srcs[i], work, "%s%d" % (prefix, i))
    return common.pmap(one, range(len(srcs)), workers=6)

def range_family(run, quick):
    """deterministic pairs on range loops: the step (and the bounds) written as literals versus returned by a function /
    held in a `let` local — the compiler knows the direction of the loop in the first form only"""
    fam = []
    combos = []
    for t in (["i32", "i16"] if quick else ["i8", "i16", "i32", "i64", "u16", "u32"]):
        for incl in (False, True):
            for down in ((False, True) if core.signed(t) else (False,)):
                for k in (1, 3):
                    for exact in (True, False):
                        combos.append((t, incl, down, k, exact))
    for (t, incl, down, k, exact) in combos:
        n = 3
        lo = 1
        hi = lo + n * k + (0 if exact else 1)
        a, b = (hi, lo) if down else (lo, hi)
        sv = -k if down else k
        def prog(form):
            fns = []
            if form == "call":
                fns.append(dict(params=[], ret=t, body=[("return", ("lit", t, sv))]))
                step = ("call", 0, [])
                pre = []
            elif form == "let":
                step = ("var", 4)
                pre = [("let", 4, t, ("lit", t, sv), False)]
            else:
                step = ("lit", t, sv)
                pre = []
            body = pre + [("let", 1, t, ("lit", t, a), True), ("let", 2, t, ("lit", t, b), True),
                          ("for", 3, t, ("var", 1), ("var", 2), [("print", [("var", 3)])], incl, step),
                          ("print", [("lit", t, 0)])]
            return fns + [dict(params=[], ret="void", body=body)]
        desc = "%s %s %s step %d, end %s" % (t, "inclusive" if incl else "exclusive", "down" if down else "up", sv, "hit exactly" if exact else "stepped over")
        fam.append((desc, "lit-call-range-step", prog("lit"), prog("call")))
        fam.append((desc, "bind-range-step", prog("lit"), prog("let")))
        if down and core.BITS[t] < 64:
            # the same negative step written as a narrowing cast of a wider literal ((253 as i8) = -3): a constant evaluator that
            # sees through the cast must wrap the value exactly as the run-time conversion does
            wide = {"i8": "i32", "i16": "i32", "i32": "u32"}[t]
            cst = ("cast", ("lit", wide, (1 << core.BITS[t]) + sv), t)
            def prog2(bound):
                pre = [("let", 4, t, cst, False)] if bound else []
                step = ("var", 4) if bound else cst
                return [dict(params=[], ret="void", body=pre + [("let", 1, t, ("lit", t, a), True), ("let", 2, t, ("lit", t, b), True),
                                                                 ("for", 3, t, ("var", 1), ("var", 2), [("print", [("var", 3)])], incl, step),
                                                                 ("print", [("lit", t, 0)])])]
            fam.append((desc + " (step as a wrapping cast)", "bind-range-step-cast", prog2(False), prog2(True)))
    return fam

def match_family(run, quick):
    """deterministic pairs on `match`: the subject written directly (a cast, a negation, a remainder, a call result, a field) versus
    bound to a fresh local first - the bind-subexpression rewrite at the one site where the lowering needs the subject's type from
    its producer (seed C09e: a subject that is directly a cast lost its type and every value ran the default arm)"""
    fam = []
    pairs = [("i32", "i64"), ("u8", "i32"), ("i64", "i16")] if quick else [(t, t2) for t in core.ITYS for t2 in core.ITYS if t != t2][::3]
    for t, t2 in pairs:
        forms = {
            "cast": lambda i: ("cast", ("bin", "%", ("var", i), ("lit", t2, 4)), t),
            "remainder": lambda i: ("bin", "%", ("cast", ("var", i), t), ("lit", t, 4)),
            "call": lambda i: ("call", 0, [("cast", ("var", i), t)]),
            "field": lambda i: ("field", ("slit", 5 if False else 2, [("cast", ("var", i), "u16")]), 0),
        }
        if core.signed(t): forms["negation"] = lambda i: ("un", "-", ("un", "-", ("cast", ("var", i), t)))
        for name, mk in forms.items():
            st = "u16" if name == "field" else t
            def prog(bound):
                fns = [dict(params=[(9, t)], ret=t, body=[("return", ("var", 9))])]
                subj = mk(3)
                arms = [(0, [("print", [("lit", "i32", 10)])]), (1, [("print", [("lit", "i32", 20)])]), (2, [("print", [("lit", "i32", 30)])])]
                inner = ([("let", 5, st, subj, True), ("match", ("var", 5), st, arms, [("print", [("lit", "i32", 99)])])] if bound
                         else [("match", subj, st, arms, [("print", [("lit", "i32", 99)])])])
                body = [("let", 1, t2, ("lit", t2, 0), True), ("let", 2, t2, ("lit", t2, 6), True),
                        ("for", 3, t2, ("var", 1), ("var", 2), inner)]
                return fns + [dict(params=[], ret="void", body=body)]
            fam.append(("match on a %s of %s (loop variable %s)" % (name, t, t2), "bind-match-subject", prog(False), prog(True)))
    return fam

def main(run):
    work = Work()
    quick = run.tier == "quick"
    nbase = 24 if quick else 400
    ok = run.proof("Props/C09.v", extra_targets=["Core/Typing.vo"])
    # corpus of minimised past failures: program + expected stdout
    cdir = os.path.join(common.VERIF, "corpus", "C09")
    for fn in sorted(os.listdir(cdir)) if os.path.isdir(cdir) else []:
        if not fn.endswith(".fer"): continue
        src = open(os.path.join(cdir, fn)).read()
        exp = open(os.path.join(cdir, fn[:-4] + ".expected")).read()
        r = common.compile_and_run(src, work, "corpus_" + fn[:-4])
        run.case(src, True)
        if not (r.get("accepted") and r.get("rc") == 0 and r.get("out") == exp):
            run.violation("corpus:" + fn, "corpus program %s: early-evaluated and run-time evaluated forms disagree (or it no longer compiles)" % fn,
                          {"program": src, "expected_stdout": exp, "stdout": r.get("out"), "compiler": (r.get("cerr") or "")[-500:]})
    bases = []
    for i in range(nbase):
        g = core.Gen(run.rng, max_stmts=20, max_depth=3)
        bases.append(g.program())
    variants, meta = [], []
    for bi, p in enumerate(bases):
        for kind in KINDS:
            r = rewrite(p, kind, run.rng)
            if r is None:
                run.count("n/a:" + kind); continue
            variants.append(r[0]); meta.append((bi, kind, r[1]))
    fam = edge_family(run, quick)
    for t, op, p0, p1 in fam:
        bases.append(p0); variants.append(p1); meta.append((len(bases) - 1, "bind-subexpr-edge", "%s %s consumed directly vs bound to a const first" % (t, op)))
    for desc, kind, p0, p1 in range_family(run, quick) + match_family(run, quick):
        bases.append(p0); variants.append(p1); meta.append((len(bases) - 1, kind, desc))
    allp = bases + variants
    res = c01.compile_run_all(allp, work)
    observed = [core.parse_output(r["out"]) if r.get("rc") == 0 else None for r in res]
    bad = c01.model_check("c09", allp, observed)
    for i, (bi, kind, desc) in enumerate(meta):
        vi = len(bases) + i
        a, b = res[bi], res[vi]
        src_a, src_b = core.to_ferret(bases[bi]), core.to_ferret(variants[i])
        run.case(src_b, True, {"rewrite": kind, "what": desc, "program": src_b} if i < 3 else None)
        run.count("kind:" + kind)
        if bad.get(vi) in ("model-rejects", "stuck"):
            raise RuntimeError("rewrite %s produced a program the reference rejects:\n%s" % (kind, src_b))
        key = "rw:%s:%s" % (kind, hashlib.sha256((src_a + src_b).encode()).hexdigest()[:12])
        rep = {"rewrite": kind, "site": desc, "original": src_a, "rewritten": src_b}
        if c01.known_crash_key(a["panic"]) or c01.known_crash_key(b["panic"]):
            run.count("skipped:known-compiler-crash")      # reported by C01 under its call-site key
            continue
        if a["accepted"] != b["accepted"] or bool(a["panic"]) != bool(b["panic"]):
            rep.update(original_diag=a["diag"][:1200], rewritten_diag=b["diag"][:1200], panic=(a["panic"] or b["panic"])[:800])
            run.violation(key, "verdict changes under rewrite %s (original %s, rewritten %s)" %
                          (kind, "accepted" if a["accepted"] else "rejected", "accepted" if b["accepted"] else "rejected"), rep)
        elif a["accepted"] and (a.get("rc"), a.get("out")) != (b.get("rc"), b.get("out")):
            rep.update(original_out=a.get("out"), rewritten_out=b.get("out"), original_rc=a.get("rc"), rewritten_rc=b.get("rc"),
                       reference=c01.model_output("c09_replay", variants[i]))
            run.violation(key, "output changes under rewrite %s" % kind, rep)
    # open known findings with a replayable pair: still failing -> KNOWN-FINDING (key match); no longer failing -> note
    for k in run.known:
        rp = k.get("replay") or {}
        if k.get("status") == "open" and "original" in rp and "rewritten" in rp:
            a = common.compile_and_run(rp["original"], work, "known_a_" + k["id"].replace("-", "_"))
            b = common.compile_and_run(rp["rewritten"], work, "known_b_" + k["id"].replace("-", "_"))
            run.case(rp["rewritten"], True)
            if bool(a.get("accepted")) != bool(b.get("accepted")) or (a.get("accepted") and a.get("out") != b.get("out")):
                run.violation(k["key"], k["what"], {"original": rp["original"], "rewritten": rp["rewritten"],
                                                    "original_accepted": a.get("accepted"), "rewritten_accepted": b.get("accepted")})
            else:
                print("NOTE: known finding %s no longer reproduces (move it to fixed)" % k["id"])
    # literal-only initialisers: let vs const vs if-true (source-level family, no reference)
    lfam = literal_init_family(run, quick)
    lres_a = run_sources([f[0] for f in lfam], work, "la")
    lres_b = run_sources([f[1] for f in lfam], work, "lb")
    for (sa, sb, kind, stats), a, b in zip(lfam, lres_a, lres_b):
        run.case(sb, True)
        run.count("kind:" + kind)
        if kind.startswith("let-const"):
            for k, v in stats.items(): run.count("literal-init:" + k, v)
        key = "lit:%s:%s" % (kind, hashlib.sha256((sa + sb).encode()).hexdigest()[:12])
        rep = {"rewrite": kind, "original": sa, "rewritten": sb}
        acc_a, acc_b = bool(a.get("accepted")), bool(b.get("accepted"))
        if acc_a != acc_b:
            rep.update(original_diag=(a.get("cout") or "")[-800:], rewritten_diag=(b.get("cout") or "")[-800:])
            run.violation(key, "verdict changes under rewrite %s (original %s, rewritten %s)" %
                          (kind, "accepted" if acc_a else "rejected", "accepted" if acc_b else "rejected"), rep)
        elif acc_a and (a.get("rc"), a.get("out")) != (b.get("rc"), b.get("out")):
            rep.update(original_out=a.get("out"), rewritten_out=b.get("out"))
            run.violation(key, "output changes under rewrite %s" % kind, rep)
        elif not acc_a:
            run.count("literal-init:both-rejected")
    run.extra["reference_diffs(reported by C01)"] = sum(1 for i, v in bad.items() if v == "diff")
    run.rule = ("accepted FerretCore programs x 4 rewrite kinds, one random applicable site each; distinct = distinct rewritten source; "
                "every rewritten program is also run through the reference interpreter")
    run.assumptions = ["fixed-array index constant rule not exercised (no arrays in FerretCore v1)"]
    if not ok:
        where, log = run.proof_failure
        run.violation("proof:C09:" + where, "Props/C09 no longer checks (%s)" % where, {"where": where, "log": log}, no_input=True)

def replay(run, path):
    print(open(path).read())
    return 0
