"""C09 — behaviour does not depend on what the compiler can evaluate early.
Proof stage: Props/C09.v (local semantic equalities of the reference for the rewrite kinds).
Tie (metamorphic): accepted FerretCore program p x applicable site x rewrite kind -> p'; the compiler must give the
same verdict on p and p' and both executables must print the same output (each also equal to the reference)."""
import os, json, hashlib, copy
import common, core, c01, c03
from common import Work

KINDS = ["lit-call", "bind-subexpr", "let-const", "if-true"]

def call_free(e):
    k = e[0]
    if k in ("call", "callvar"): return False
    if k == "bin": return call_free(e[2]) and call_free(e[3])
    if k == "un": return call_free(e[2])
    if k == "cast": return call_free(e[1])
    if k == "slit": return all(call_free(a) for a in e[2])
    if k == "field": return call_free(e[1])
    return True

def stmt_call_free(s):
    k = s[0]
    if k == "let": return call_free(s[3])
    if k == "assign": return call_free(s[2])
    if k == "cassign": return call_free(s[3])
    if k == "assignf": return call_free(s[3])
    if k == "cassignf": return call_free(s[4])
    if k == "print": return all(call_free(a) for a in s[1])
    return False

def assigned_vars(prog):
    out = set()
    def wb(b):
        for s in b:
            if s[0] in ("assign", "cassign", "inc", "assignf", "cassignf"): out.add(s[1])
            elif s[0] == "if": wb(s[2]); wb(s[3])
            elif s[0] == "while": wb(s[2])
            elif s[0] == "block": wb(s[1])
            elif s[0] == "for": wb(s[5])
            elif s[0] == "match":
                for _, b in s[3]: wb(b)
                if s[4] is not None: wb(s[4])
    for f in prog: wb(f["body"])
    return out

def max_var(prog):
    m = [0]
    def we(e):
        if e[0] == "var": m[0] = max(m[0], e[1])
        elif e[0] == "bin": we(e[2]); we(e[3])
        elif e[0] == "un": we(e[2])
        elif e[0] == "cast": we(e[1])
        elif e[0] in ("call", "slit"):
            for a in e[2]: we(a)
        elif e[0] == "field": we(e[1])
    def wb(b):
        for s in b:
            k = s[0]
            if k == "let": m[0] = max(m[0], s[1]); we(s[3])
            elif k == "assign": we(s[2])
            elif k == "cassign": we(s[3])
            elif k == "assignf": we(s[3])
            elif k == "cassignf": we(s[4])
            elif k == "if": we(s[1]); wb(s[2]); wb(s[3])
            elif k == "while": we(s[1]); wb(s[2])
            elif k == "for": m[0] = max(m[0], s[1]); we(s[3]); we(s[4]); wb(s[5])
            elif k == "match":
                we(s[1])
                for _, b in s[3]: wb(b)
                if s[4] is not None: wb(s[4])
            elif k == "return" and s[1] is not None: we(s[1])
            elif k == "print":
                for a in s[1]: we(a)
            elif k == "expr": we(s[1])
            elif k == "block": wb(s[1])
    for f in prog:
        for x, _ in f["params"]: m[0] = max(m[0], x)
        wb(f["body"])
    return m[0]

def rewrite(prog, kind, rng):
    """returns (p', description) or None"""
    m = c03.mutable(prog)
    esites, ssites, fns = c03.collect_sites(m)
    rng.shuffle(esites); rng.shuffle(ssites)
    if kind == "lit-call":
        for s in esites:
            e = s.get()
            if e[0] == "lit" and s.ctx[-1] != "recursion-arg":
                # not the first argument of a recursive call pattern (kept literal so that depth stays bounded — it still is: same value)
                newf = dict(params=[], ret=e[1], body=[["return", ["lit", e[1], e[2]]]])
                idx = len(m) - 1
                m.insert(idx, newf)
                s.set(["call", idx, []])
                return m, "literal %d:%s at %s -> f%d()" % (e[2], e[1], "/".join(s.ctx[-2:]), idx)
    if kind == "bind-subexpr":
        fresh = max_var(m) + 1
        for s in ssites:
            st = s.get()
            if st[0] in ("let", "assign", "cassign", "print") and stmt_call_free(st):
                # candidate subexpressions of this statement
                subs = [x for x in esites if x.holder is not None and _inside(st, x) and x.get()[0] in ("bin", "un", "cast")]
                rng.shuffle(subs)
                for x in subs:
                    e = x.get()
                    t = c03.expr_type(e, x.env, fns)
                    if t is None or t == "void": continue
                    x.set(["var", fresh])
                    s.holder.insert(s.idx, ["let", fresh, t, e, True])
                    return m, "subexpression of type %s bound to const v%d before a %s statement" % (t, fresh, st[0])
    if kind == "let-const":
        av = assigned_vars(m)
        c = [s for s in ssites if s.get()[0] == "let" and not s.get()[4] and s.get()[1] not in av]
        if c:
            n = 0
            for s in c:
                s.get()[4] = True; n += 1
            return m, "%d never-reassigned let -> const" % n
    if kind == "if-true":
        for s in ssites:
            st = s.get()
            if st[0] in ("assign", "cassign", "inc", "print", "expr", "if", "while", "block", "for", "match"):
                s.set(["if", ["bool", True], [st], []])
                return m, "%s statement wrapped in if true { } at %s" % (st[0], "/".join(s.ctx[-2:]))
    return None

def _inside(st, site):
    """is the expression site located inside statement st (identity walk)"""
    target = site.holder
    def we(e):
        if e is target: return True
        if isinstance(e, list):
            return any(we(x) for x in e if isinstance(x, list))
        return False
    return st is target or we(st)

def edge_family(run, quick):
    """deterministic metamorphic pairs on arithmetic edges: the expression `a op b` (operands opaque: function parameters)
    consumed directly at register width (widened / compared) versus first bound to a fresh immutable local"""
    fam = []
    combos = [(t, op) for t in ("i8", "i16", "u8", "u16", "i32") for op in ("+", "-", "*", "/", "%", "neg")
              if not (op == "neg" and not core.signed(t))]
    always = [(t, op) for (t, op) in combos if core.BITS[t] < 32 and op in ("/", "neg", "*")]
    rest = [c for c in combos if c not in always]
    chosen = always + (run.rng.sample(rest, 8) if quick else rest)
    for t, op in chosen:
        lo, hi = core.tmin(t), core.tmax(t)
        vals = sorted({lo, lo + 1, hi, hi - 1, 0, 1, 2} | ({-1, -2} if core.signed(t) else set()))
        pairs = [(x, y) for x in vals for y in vals]
        if op in ("/", "%"):
            pairs = [(x, y) for x, y in pairs if y != 0 and not (core.BITS[t] >= 32 and core.signed(t) and x == lo and y == -1)]
        if op == "neg":
            pairs = [(x, 1) for x in vals]
        pairs = pairs[:40]
        a, b, q = 1, 2, 3
        e = ("un", "-", ("var", a)) if op == "neg" else ("bin", op, ("var", a), ("var", b))
        thr = ("lit", t, 1)
        def prog(bound):
            if bound:
                fbody = [("let", q, t, e, True), ("return", ("cast", ("var", q), "i64"))]
                gbody = [("let", q, t, e, True), ("return", ("bin", ">", ("var", q), thr))]
            else:
                fbody = [("return", ("cast", e, "i64"))]
                gbody = [("return", ("bin", ">", e, thr))]
            f = dict(params=[(a, t), (b, t)], ret="i64", body=fbody)
            g = dict(params=[(a, t), (b, t)], ret="bool", body=gbody)
            main = dict(params=[], ret="void", body=[("print", [("call", 0, [("lit", t, x), ("lit", t, y)]),
                                                              ("call", 1, [("lit", t, x), ("lit", t, y)])]) for x, y in pairs])
            return [f, g, main]
        fam.append((t, op, prog(False), prog(True)))
    return fam

def main(run):
    work = Work()
    quick = run.tier == "quick"
    nbase = 24 if quick else 400
    ok = run.proof("Props/C09.v", extra_targets=["Core/Typing.vo"])
    # corpus of minimised past failures: program + expected stdout
    cdir = os.path.join(common.VERIF, "corpus", "C09")
    for fn in sorted(os.listdir(cdir)) if os.path.isdir(cdir) else []:
        if not fn.endswith(".fer"): continue
        src = open(os.path.join(cdir, fn)).read()
        exp = open(os.path.join(cdir, fn[:-4] + ".expected")).read()
        r = common.compile_and_run(src, work, "corpus_" + fn[:-4])
        run.case(src, True)
        if not (r.get("accepted") and r.get("rc") == 0 and r.get("out") == exp):
            run.violation("corpus:" + fn, "corpus program %s: early-evaluated and run-time evaluated forms disagree (or it no longer compiles)" % fn,
                          {"program": src, "expected_stdout": exp, "stdout": r.get("out"), "compiler": (r.get("cerr") or "")[-500:]})
    bases = []
    for i in range(nbase):
        g = core.Gen(run.rng, max_stmts=20, max_depth=3)
        bases.append(g.program())
    variants, meta = [], []
    for bi, p in enumerate(bases):
        for kind in KINDS:
            r = rewrite(p, kind, run.rng)
            if r is None:
                run.count("n/a:" + kind); continue
            variants.append(r[0]); meta.append((bi, kind, r[1]))
    fam = edge_family(run, quick)
    for t, op, p0, p1 in fam:
        bases.append(p0); variants.append(p1); meta.append((len(bases) - 1, "bind-subexpr-edge", "%s %s consumed directly vs bound to a const first" % (t, op)))
    allp = bases + variants
    res = c01.compile_run_all(allp, work)
    observed = [core.parse_output(r["out"]) if r.get("rc") == 0 else None for r in res]
    bad = c01.model_check("c09", allp, observed)
    for i, (bi, kind, desc) in enumerate(meta):
        vi = len(bases) + i
        a, b = res[bi], res[vi]
        src_a, src_b = core.to_ferret(bases[bi]), core.to_ferret(variants[i])
        run.case(src_b, True, {"rewrite": kind, "what": desc, "program": src_b} if i < 3 else None)
        run.count("kind:" + kind)
        if bad.get(vi) in ("model-rejects", "stuck"):
            raise RuntimeError("rewrite %s produced a program the reference rejects:\n%s" % (kind, src_b))
        key = "rw:%s:%s" % (kind, hashlib.sha256((src_a + src_b).encode()).hexdigest()[:12])
        rep = {"rewrite": kind, "site": desc, "original": src_a, "rewritten": src_b}
        if c01.known_crash_key(a["panic"]) or c01.known_crash_key(b["panic"]):
            run.count("skipped:known-compiler-crash")      # reported by C01 under its call-site key
            continue
        if a["accepted"] != b["accepted"] or bool(a["panic"]) != bool(b["panic"]):
            rep.update(original_diag=a["diag"][:1200], rewritten_diag=b["diag"][:1200], panic=(a["panic"] or b["panic"])[:800])
            run.violation(key, "verdict changes under rewrite %s (original %s, rewritten %s)" %
                          (kind, "accepted" if a["accepted"] else "rejected", "accepted" if b["accepted"] else "rejected"), rep)
        elif a["accepted"] and (a.get("rc"), a.get("out")) != (b.get("rc"), b.get("out")):
            rep.update(original_out=a.get("out"), rewritten_out=b.get("out"), original_rc=a.get("rc"), rewritten_rc=b.get("rc"),
                       reference=c01.model_output("c09_replay", variants[i]))
            run.violation(key, "output changes under rewrite %s" % kind, rep)
    run.extra["reference_diffs(reported by C01)"] = sum(1 for i, v in bad.items() if v == "diff")
    run.rule = ("accepted FerretCore programs x 4 rewrite kinds, one random applicable site each; distinct = distinct rewritten source; "
                "every rewritten program is also run through the reference interpreter")
    run.assumptions = ["fixed-array index constant rule not exercised (no arrays in FerretCore v1)"]
    if not ok:
        where, log = run.proof_failure
        run.violation("proof:C09:" + where, "Props/C09 no longer checks (%s)" % where, {"where": where, "log": log}, no_input=True)

def replay(run, path):
    print(open(path).read())
    return 0
