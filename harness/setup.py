#!/usr/bin/env python3
"""make setup: regenerate the tables from /repo, then a full .vo build of the whole development."""
import sys, os, importlib
sys.path.insert(0, os.path.dirname(os.path.abspath(__file__)))
import common
common.impl()
mods = sorted(f[:-3] for f in os.listdir(os.path.dirname(os.path.abspath(__file__))) if __import__("re").fullmatch(r"c\d+\.py", f))
for mod in mods:
    m = importlib.import_module(mod)
    if hasattr(m, "setup"):
        m.setup()
# build what the checks need (every Props module with its dependencies + the models evaluated by the correspondence
# stages); stray work-in-progress files elsewhere under coq/ do not take part
targets = sorted("Props/" + f[:-2] + ".vo" for f in os.listdir(os.path.join(common.COQ, "Props")) if f.endswith(".v"))
targets += sorted("Models/" + f[:-2] + ".vo" for f in os.listdir(os.path.join(common.COQ, "Models")) if f.endswith(".v"))
targets += ["Core/Typing.vo", "Core/Sem.vo"]
ok, log = common.coq_make(targets, timeout=3400)
print(log[-3000:])
bad = common.grep_gate()
if bad:
    print("FORBIDDEN:", bad)
    sys.exit(1)
sys.exit(0 if ok else 1)
