"""C14 — compilation is deterministic under every schedule.

Proof: coq/Props/C14.v about the port coq/Models/Sched.v (parser goroutines as event sequences, literal-name
counters, DiagnosticBag + sortDiagnostics, AddDependency + ComputeTopologicalOrder, emitTypeIDs).
Tie, on every run, against the compiler built from the working tree:
  (a) hook `sched` (exported APIs, in-process): literal names under module-granular schedules of the real
      lexer+parser, sortDiagnostics through DiagnosticBag.EmitAllToString, AddDependency/ComputeTopologicalOrder
      repeated (Go re-randomises map iteration), qbe Generator.Emit on TypeIDs maps;  all compared with the model
      inside Coq (bad_ids) and with the property itself (same input => one output);
  (b) the real CLI: generated multi-module projects compiled k times under GOMAXPROCS in {1,2,16} with -keep-gen:
      exit status, stderr text, every gen/*.ssa and the .wasm bytes must be identical; literal names, type-id order
      and diagnostics order are also compared with the model's prediction.
Open findings (schedule-dependent diagnostics) are replayed deterministically at API level and sampled on the CLI."""
import os, re, json, shutil, subprocess, hashlib
from concurrent.futures import ThreadPoolExecutor
import common
from common import Work

POOL = ThreadPoolExecutor(max_workers=12)

KINDS = ["func", "struct", "interface", "enum"]
KCTOR = {"func": "KFn", "struct": "KSt", "interface": "KIntr", "enum": "KEnum"}
PROCS = ["1", "2", "16"]

# ------------------------------------------------------------------ Coq rendering
def cq_nat_list(xs): return "[" + "; ".join(str(x) for x in xs) + "]"
def cq_loc(l): return "None" if l is None else "(Some (%d, %d))" % l
def cq_msg(m): return "(MText %d)" % m if isinstance(m, int) else "(MCycle %s)" % cq_nat_list(m)
def cq_diag(d): return "(mkDiag %s %s)" % (cq_loc(d[0]), cq_msg(d[1]))
def cq_names(ns): return "[" + "; ".join("(%s, %d)" % (KCTOR[k], n) for k, n in ns) + "]"
def cq_event(e):
    if e[0] == "lit": return "ELit %s" % KCTOR[e[1]]
    if e[0] == "diag": return "EDiag %s" % cq_diag(e[1])
    if e[0] == "dep": return "EDep %d %s" % (e[1], cq_loc(e[2]))
    if e[0] == "spawn": return "ESpawn %d %s" % (e[1], cq_loc(e[2]))
    raise ValueError(e)
def cq_project(P):
    out = []
    for m, b in P:
        if b[0] == "missing": out.append("(%d, Missing %d)" % (m, b[1]))
        else: out.append("(%d, Present [%s])" % (m, "; ".join(cq_event(e) for e in b[1])))
    return "[" + ";\n   ".join(out) + "]"
def cq_opt_cycle(r): return "None" if r is None else "(Some %s)" % cq_nat_list(r)
def cq_bytes(s): return cq_nat_list(list(s.encode()))

def coq_cases(name, cases):
    """cases: list of (id, coq text). Returns set of bad ids (shards evaluated by parallel coqc processes)."""
    if not cases:
        return set()
    shards = [cases[i::6] for i in range(6) if cases[i::6]]
    def one(arg):
        n, part = arg
        body = "From Coq Require Import List ZArith.\nFrom FV Require Import Models.Sched.\nImport ListNotations.\nOpen Scope Z_scope.\nOpen Scope nat_scope.\n"
        body += "Definition cases : list ccase := [\n" + ";\n".join(t for _, t in part) + "\n].\n"
        body += "Eval vm_compute in (bad_ids cases).\n"
        ok, out = common.coq_eval("c14_%s_%d" % (name, n), body, timeout=600)
        ids = common.parse_bad_ids(out) if ok else None
        if ids is None:
            raise RuntimeError("coq evaluation of the C14 cases failed:\n" + out[-3000:])
        return set(ids)
    bad = set()
    for r in common.pmap(one, list(enumerate(shards)), workers=6):
        bad |= r
    return bad

# ------------------------------------------------------------------ hook
def hook_run(reqs, timeout=300):
    hook = common.build_hook("sched")
    inp = "".join(json.dumps(r) + "\n" for r in reqs).encode()
    p = subprocess.run([hook], input=inp, stdout=subprocess.PIPE, stderr=subprocess.PIPE, timeout=timeout, preexec_fn=common.limit_mem())
    res = {}
    for line in p.stdout.decode("utf8", "replace").splitlines():
        try:
            j = json.loads(line)
        except ValueError:
            continue
        res[j["id"]] = j
    for r in reqs:
        if r["id"] not in res:
            res[r["id"]] = {"id": r["id"], "panic": "hook died rc=%s %s" % (p.returncode, p.stderr.decode("utf8", "replace")[-800:])}
    return res

# ------------------------------------------------------------------ module generator
TID_VALUES = ["x", '"s"', "1.5", "true", "p0"]      # i32, str, f64, bool, named struct

def gen_spec(rng, flavour, is_main=False, prefix=None):
    """A module description; the events of its parser goroutine are derived from it (not from the output)."""
    s = dict(nfn=0, nanon=0, nenum=0, nstruct=0, ntid=0, prefix=0, nstr=0, imports=[], is_main=is_main, errline=False)
    if flavour == "lits":
        s["nfn"] = rng.choice([0, 1, 1, 2, 3, 5]); s["nanon"] = rng.randint(0, 2); s["nenum"] = rng.randint(0, 2)
        s["nstruct"] = rng.randint(0, 2); s["ntid"] = rng.choice([0, 0, 2, 3])
    elif flavour == "tids":
        s["nfn"] = rng.randint(0, 1); s["ntid"] = rng.randint(2, 5); s["nstruct"] = 1
    elif flavour == "wasm":
        s["nanon"] = rng.randint(0, 2); s["nenum"] = rng.randint(0, 2); s["nstruct"] = rng.randint(0, 2); s["nstr"] = rng.randint(0, 3)
    elif flavour == "plain":
        s["nstruct"] = rng.randint(0, 1)
    elif flavour == "ifaces":
        # >= 2 interfaces x >= 2 implementing types (>= 4 vtables), >= 4 type ids, closures with captures, strings, enums
        s["nif"] = rng.randint(2, 3); s["nty"] = rng.randint(2, 3); s["ntid"] = 4; s["nfn"] = rng.randint(1, 3)
        s["nstr"] = rng.randint(2, 4); s["nenum"] = rng.randint(1, 2); s["nanon"] = rng.randint(0, 1)
    s["prefix"] = prefix if prefix is not None else rng.choice([0, 0, 3, 40])
    if s["ntid"] >= 5: s["nstruct"] = max(1, s["nstruct"])
    if s["ntid"] == 5 and s["nstruct"] == 0: s["ntid"] = 4
    return s

def lit_counts(s):
    return {"func": s["nfn"], "struct": s["nstruct"] + s["nanon"] + s.get("nty", 0),
            "interface": (1 if s["ntid"] else 0) + s.get("nif", 0), "enum": s["nenum"]}

def render(s, modname, tag):
    """Ferret source of one module. Imports are (path, alias, exists) on consecutive lines from line 1 (main: after std/io)."""
    L = []
    if s["is_main"]: L.append('import "std/io";')
    for path, alias, _ in s["imports"]:
        L.append('import "%s" as %s;' % (path, alias))
    if s.get("sameline"):
        L.append(" ".join('import "%s" as %s;' % (p, a) for p, a, _ in s["sameline"]))
    L.append("")
    if s["ntid"]: L.append("type Any interface {};")
    for i in range(s["nenum"]): L.append("type E%d enum { A%d, B%d, C%d };" % (i, i, i, i))
    for i in range(s["nstruct"]): L.append("type S%d struct { .X: i32, .Y: i64 };" % i)
    nif, nty = s.get("nif", 0), s.get("nty", 0)
    for j in range(nif): L.append("type I%d%s interface { f%d() -> i32, };" % (j, modname, j))
    for i in range(nty): L.append("type T%d%s struct { .A: i32, .B: i32 };" % (i, modname))
    for i in range(nty):
        for j in range(nif):
            L.append("fn (t: T%d%s) f%d() -> i32 { return t.A * %d + %d; }" % (i, modname, j, i + 1, j + tag))
    if nty: L.append("fn New(x: i32) -> T0%s { return { .A = x, .B = 1 } as T0%s; }" % (modname, modname))
    for i in range(s["prefix"]):
        L.append("fn pad%d(x: i32) -> i32 {\n    let y: i32 = x + %d;\n    return y * 2;\n}" % (i, i + tag))
    L.append("fn Run(x: i32) -> i32 {")
    L.append("    let acc: i32 = x + %d;" % tag)
    if nif: L.append("    let k: i32 = %d;" % (tag + 3))
    for i in range(s["nfn"]):
        if nif: L.append("    let f%d := fn(y: i32) -> i32 { return y * k + x + %d; };" % (i, i + 1))     # closure with captures
        else: L.append("    let f%d := fn(y: i32) -> i32 { return y + %d; };" % (i, i + 1))
        L.append("    acc = acc + f%d(x);" % i)
    for i in range(nty):
        L.append("    let t%d: T%d%s = { .A = x + %d, .B = %d };" % (i, i, modname, i, i))
        for j in range(nif):
            L.append("    let w%d_%d: I%d%s = t%d;" % (i, j, j, modname, i))
            L.append("    acc = acc + w%d_%d.f%d();" % (i, j, j))
    if nty and s["ntid"]: L.append("    let vt: Any = t0;")
    for alias in s.get("xconv", []):            # interface of this module implemented by a type of an imported module
        L.append("    let q%s := %s::New(2);" % (alias, alias))
        L.append("    let cw%s: I0%s = q%s;" % (alias, modname, alias))
        L.append("    acc = acc + cw%s.f0();" % alias)
    for i in range(s["nanon"]):
        L.append("    let a%d: struct { .A: i32, .B: i32 } = { .A = x, .B = %d };" % (i, i))
        L.append("    acc = acc + a%d.A;" % i)
    if s["nstruct"]:
        L.append("    let p0: S0 = { .X = x, .Y = 2 };")
        L.append("    acc = acc + p0.X;")
    for i in range(s["ntid"]):
        L.append("    let v%d: Any = %s;" % (i, TID_VALUES[i]))
    for i in range(s["nstr"]):
        L.append('    let s%d: str = "%s-%d";' % (i, modname, i))
    for path, alias, ex in s["imports"]:
        if ex and not s["is_main"]: L.append("    acc = acc + %s::Run(x);" % alias)
    L.append("    return acc;")
    L.append("}")
    if s["is_main"]:
        L.append("fn main() {")
        L.append("    let r: i32 = Run(1);")
        for path, alias, ex in s["imports"]:
            if ex: L.append("    r = r + %s::Run(2);" % alias)
        L.append("    io::Println(r);")
        L.append("}")
    return "\n".join(L) + "\n"

class Project:
    """name -> spec; graph given by spec['imports'] = [(import path, alias, exists)]"""
    def __init__(self, pname, specs, missing=()):
        self.pname = pname; self.specs = specs; self.missing = list(missing)
        paths = ["global", "std/io"] + ["%s/%s" % (pname, n) for n in specs] + ["%s/%s" % (pname, n) for n in self.missing]
        self.rank = {p: i for i, p in enumerate(sorted(set(paths)))}
        files = sorted("%s.fer" % n for n in specs)
        self.frank = {f: i for i, f in enumerate(files)}
    def node(self, name): return self.rank["%s/%s" % (self.pname, name)]
    def files(self):
        return {n + ".fer": render(s, n, 7 * i) for i, (n, s) in enumerate(sorted(self.specs.items()))}
    def write(self, d):
        os.makedirs(d, exist_ok=True)
        for fn, txt in self.files().items():
            open(os.path.join(d, fn), "w").write(txt)
    def events(self):
        """Coq project: events of every parser goroutine (parse.go order: parse, global dep, deps, spawns)."""
        P = [(self.rank["global"], ("present", [])), (self.rank["std/io"], ("present", [("dep", self.rank["global"], None)]))]
        for n, s in sorted(self.specs.items()):
            evs = []
            for k in KINDS:
                evs += [("lit", k)] * lit_counts(s)[k]
            evs.append(("dep", self.rank["global"], None))
            imps = []
            line = 1
            if s["is_main"]:
                imps.append((self.rank["std/io"], (self.frank[n + ".fer"], line))); line += 1
            for path, alias, ex in s["imports"]:
                imps.append((self.rank[path], (self.frank[n + ".fer"], line))); line += 1
            for path, alias, ex in s.get("sameline", []):
                imps.append((self.rank[path], (self.frank[n + ".fer"], line)))
            evs += [("dep", v, l) for v, l in imps] + [("spawn", v, l) for v, l in imps]
            P.append((self.node(n), ("present", evs)))
        for n in self.missing:
            P.append((self.node(n), ("missing", self.node(n))))
        return sorted(P)
    def roots(self): return [self.rank["global"], self.node("main")]

class FileProject:
    """A fixed set of source files (corpus entries, hand-written probes): compiled repeatedly, not modelled."""
    def __init__(self, pname, files):
        self.pname = pname; self._files = dict(files); self.specs = {}
    def files(self): return dict(self._files)
    def write(self, d):
        os.makedirs(d, exist_ok=True)
        for fn, txt in self._files.items():
            open(os.path.join(d, fn), "w").write(txt)

def corpus_projects():
    """corpus/C14/<name>/*.fer : minimised past failures, compiled k times on every run"""
    out = []
    base = os.path.join(common.VERIF, "corpus", "C14")
    if os.path.isdir(base):
        for name in sorted(os.listdir(base)):
            d = os.path.join(base, name)
            fs = {fn: open(os.path.join(d, fn)).read() for fn in sorted(os.listdir(d)) if fn.endswith(".fer")} if os.path.isdir(d) else {}
            if "main.fer" in fs: out.append((name, FileProject(name, fs)))
    return out

def alias_probe():
    """Four imported modules export a type with the SAME name; main converts a value of each to its own interface.
    lookupTypeSymbol (mir/gen/interface.go, builder.go) ranges over mod.ImportAliasMap and takes the first module
    that has a type of that name [open finding F-C14-TYPE-ALIAS-LOOKUP]."""
    fs = {}
    for n in range(4):
        fs["m%d.fer" % n] = ("type Sq struct { .S: i32 };\nfn (s: Sq) area() -> i32 { return s.S * s.S + %d; }\n"
                             "fn (s: Sq) name() -> i32 { return %d; }\nfn NewSq(x: i32) -> Sq { return { .S = x } as Sq; }\n" % (n, n))
    fs["main.fer"] = ('import "std/io";\n' + "".join('import "p/m%d" as m%d;\n' % (n, n) for n in range(4)) +
                      "type Shape interface { area() -> i32, };\ntype Named interface { name() -> i32, };\nfn main() {\n" +
                      "".join("    let a%d := m%d::NewSq(%d);\n    let s%d: Shape = a%d;\n    let n%d: Named = a%d;\n" % (n, n, n + 2, n, n, n, n) for n in range(4)) +
                      "    io::Println(s0.area(), s1.area(), s2.area(), s3.area(), n0.name(), n1.name(), n2.name(), n3.name());\n}\n")
    return FileProject("p", fs)

def gen_project(rng, flavour, idx):
    """main + 2..4 siblings (+ optional second level); the first-spawned sibling gets a long prefix before its
    first literal and the last a short one, so that GOMAXPROCS=1 and =16 take different interleavings."""
    pname = "p"
    nsib = rng.randint(2, 4)
    names = ["m%d" % i for i in range(nsib)]
    specs = {}
    for i, n in enumerate(names):
        pre = 60 if i == 0 else (0 if i == nsib - 1 else None)
        specs[n] = gen_spec(rng, flavour, prefix=pre)
        if flavour in ("lits",) and specs[n]["nfn"] == 0 and i in (0, nsib - 1): specs[n]["nfn"] = 1 + i % 2
    main = gen_spec(rng, flavour, is_main=True, prefix=0)
    main["imports"] = [("%s/%s" % (pname, n), n, True) for n in names]
    if rng.random() < 0.6:                      # a shared second-level module (diamond)
        specs["z0"] = gen_spec(rng, flavour, prefix=rng.choice([0, 20]))
        for n in rng.sample(names, rng.randint(1, len(names))):
            specs[n]["imports"].append(("%s/z0" % pname, "z0", True))
    specs["main"] = main
    if flavour == "ifaces":
        for n, sp in specs.items():
            sp["xconv"] = [a for (pth, a, ex) in sp["imports"] if ex and specs[a].get("nty")]
    return Project(pname, specs)

# ------------------------------------------------------------------ CLI runs
def compile_runs(proj, d, k, target, extra_t=False):
    """Compile the project k times in directory d (same path every time). Returns list of observations."""
    obs = []
    im = common.impl()
    for i in range(k):
        shutil.rmtree(os.path.join(d, "gen"), ignore_errors=True)
        for f in ("prog", "prog.wasm"):
            try: os.remove(os.path.join(d, f))
            except OSError: pass
        if extra_t: args = ["-t", "main.fer"]
        elif target == "wasm": args = ["-target", "wasm", "-keep-gen", "-o", "prog.wasm", "main.fer"]
        else: args = ["-keep-gen", "-o", "prog", "main.fer"]
        env = dict(os.environ, NO_COLOR="1", GOMAXPROCS=PROCS[i % len(PROCS)])
        try:
            p = subprocess.run([im.ferret] + args, cwd=d, stdout=subprocess.PIPE, stderr=subprocess.PIPE, timeout=120, env=env)
            rc, so, se = p.returncode, common.strip_ansi(p.stdout.decode("utf8", "replace")), common.strip_ansi(p.stderr.decode("utf8", "replace"))
        except subprocess.TimeoutExpired:
            rc, so, se = -9, "", "TIMEOUT"
        se = "\n".join(l for l in se.splitlines() if "/ld: " not in l and not l.startswith("ld: "))
        o = {"rc": rc, "stdout": so, "stderr": se, "procs": env["GOMAXPROCS"], "args": args, "files": {}}
        g = os.path.join(d, "gen")
        if os.path.isdir(g):
            for fn in sorted(os.listdir(g)):
                if fn.endswith(".ssa"):
                    o["files"]["gen/" + fn] = open(os.path.join(g, fn), "rb").read().decode("latin1")
        w = os.path.join(d, "prog.wasm")
        if os.path.exists(w):
            o["files"]["prog.wasm"] = open(w, "rb").read().hex()
        obs.append(o)
    return obs

def first_difference(obs):
    """None if all observations agree on exit status, stderr text, stdout and every kept file; else (i, what)."""
    a = obs[0]
    for i, b in enumerate(obs[1:], 1):
        if a["rc"] != b["rc"]: return i, "exit status %s vs %s" % (a["rc"], b["rc"])
        if a["stderr"] != b["stderr"]: return i, "diagnostics (stderr text) differ"
        if a["stdout"] != b["stdout"]: return i, "stdout differs"
        if sorted(a["files"]) != sorted(b["files"]): return i, "set of generated files differs"
        for fn in sorted(a["files"]):
            if a["files"][fn] != b["files"][fn]: return i, "%s differs" % fn
    return None

DIAG_RE = re.compile(r"error(?:\[[A-Z0-9]+\])?: (.*)\n\s*--> (\S+?):(\d+):(\d+)")

def parse_stderr_diags(proj, text):
    """[(loc, msg)] in emission order, in the model's vocabulary; None if something is not recognised."""
    out = []
    for m in DIAG_RE.finditer(text):
        msg, path, line = m.group(1).strip(), m.group(2), int(m.group(3))
        fn = os.path.basename(path)
        if fn not in proj.frank: return None
        mm = re.match(r"module not found: (\S+)$", msg)
        if mm and mm.group(1) in proj.rank:
            out.append(((proj.frank[fn], line), proj.rank[mm.group(1)])); continue
        mm = re.match(r"circular import detected: (.*)$", msg)
        if mm:
            try: out.append(((proj.frank[fn], line), [proj.node(x) for x in mm.group(1).split(" -> ")])); continue
            except KeyError: return None
        return None
    return out

def model_fn_names(proj):
    return {n: ["__func_lit__%d" % (i + 1) for i in range(s["nfn"])] for n, s in proj.specs.items()}

def observed_fn_names(proj, o):
    res = {}
    for n in proj.specs:
        txt = o["files"].get("gen/%s_%s.ssa" % (proj.pname, n), "")
        seen = []
        for m in re.finditer(r"^(?:export )?function .*?\$(?:\w+?_)?(__func_lit__\d+)\(", txt, re.M):
            if m.group(1) not in seen: seen.append(m.group(1))
        res[n] = sorted(seen, key=lambda x: int(x.rsplit("_", 1)[1]))
    return res

def replay_of(proj, obs, i, extra=None):
    a, b = obs[0], obs[i]
    r = {"project_dir_name": proj.pname, "files": proj.files(), "entry": "main.fer",
         "run_A": {"GOMAXPROCS": a["procs"], "args": a["args"], "rc": a["rc"], "stderr": a["stderr"][-3000:]},
         "run_B": {"GOMAXPROCS": b["procs"], "args": b["args"], "rc": b["rc"], "stderr": b["stderr"][-3000:]},
         "how": "write the files into a directory named '%s', cd there, run ferret with the args repeatedly under GOMAXPROCS=1/2/16 and diff" % proj.pname}
    for fn in sorted(set(a["files"]) | set(b["files"])):
        if a["files"].get(fn) != b["files"].get(fn):
            r["differing_file"] = fn
            r["content_A"] = (a["files"].get(fn) or "")[:6000]; r["content_B"] = (b["files"].get(fn) or "")[:6000]
            break
    if extra: r.update(extra)
    return r

# ------------------------------------------------------------------ stages
def stage_parse(run, cases, n):
    """Literal names under module-granular schedules of the real lexer+parser (one process, several orders)."""
    rng = run.rng
    reqs = []; meta = {}
    for c in range(n):
        nm = rng.randint(2, 4)
        specs = [gen_spec(rng, rng.choice(["lits", "lits", "wasm", "tids"]), prefix=rng.choice([0, 2])) for _ in range(nm)]
        files = [{"path": "/c14/p/m%d.fer" % i, "text": render(s, "m%d" % i, i)} for i, s in enumerate(specs)]
        order = [rng.randrange(nm) for _ in range(rng.randint(nm, 2 * nm + 1))]
        for i in range(nm):
            if i not in order: order.append(i)
        rid = 1000 + c
        reqs.append({"id": rid, "op": "parse", "files": files, "order": order})
        meta[rid] = (specs, files, order)
    # every request in its own process: the counters of the unrepaired code are process-global
    res = {}
    for grp in common.pmap(lambda r: hook_run([r]), reqs, workers=8):
        res.update(grp)
    viol = None
    for rid, (specs, files, order) in sorted(meta.items()):
        r = res[rid]
        if r.get("panic"):
            run.violation("hook-parse-panic", "sched hook failed while parsing: %s" % r["panic"][:300], {"request": reqs[rid - 1000]}, no_input=True)
            continue
        obs = []
        for occ, p in enumerate(r["parses"]):
            names = []
            for l in p["lits"]:
                m = re.match(r"__(\w+?)_lit__(\d+)$", l)
                names.append((m.group(1), int(m.group(2))))
            names.sort(key=lambda kn: (KINDS.index(kn[0]), kn[1]))
            obs.append(names)
        # spec-side oracle: the names of a module are a function of its text (same file => same names)
        byfile = {}
        for occ, fi in enumerate(order):
            if fi in byfile and byfile[fi][1] != obs[occ] and viol is None:
                viol = (files, order, fi, byfile[fi], (occ, obs[occ]))
            byfile.setdefault(fi, (occ, obs[occ]))
        # (InterfaceType.ID is not part of the AST's JSON form, so interface literals cannot be observed here;
        #  the four counters are independent, the other three kinds are compared)
        P = [(occ, ("present", [("lit", k) for k in KINDS if k != "interface" for _ in range(lit_counts(specs[fi])[k])]))
             for occ, fi in enumerate(order)]
        occs = list(range(len(order)))
        txt = "CNames %d %s %s (sequential %s %s) false [%s]" % (
            rid, cq_project(P), cq_nat_list(occs), cq_project(P), cq_nat_list(occs),
            "; ".join("(%d, %s)" % (occ, cq_names(obs[occ])) for occ in occs))
        cases.append((rid, txt, "parse", {"files": files, "order": order, "observed_names": obs}))
        run.case(("parse", [f["text"] for f in files], order), True,
                 {"kind": "parse-schedule", "order": order, "names": obs[:3]} if c == 0 else None)
        run.count("parse_orders"); run.count("parse_literals", sum(len(o) for o in obs))
    if viol:
        files, order, fi, (o1, n1), (o2, n2) = viol
        run.violation("lit-names-schedule-dependent",
                      "literal names of a module depend on what other parsers did before: file %s parsed at positions %d and %d "
                      "of the same process got %s vs %s" % (files[fi]["path"], o1, o2, n1[:4], n2[:4]),
                      {"op": "parse (hooks/sched)", "files": files, "order": order, "file_index": fi,
                       "names_first": n1, "names_second": n2,
                       "theorem": "C14_lit_names_local (repaired numbering) / C14_prefix_global_names_refuted"})
        return False
    return True

def rand_bag(rng):
    n = rng.choice([0, 1, 2, 3, 5, 8, 13, 21, 34, 55])
    nf = rng.randint(1, 4); nl = rng.randint(1, 4)
    bag = []
    for i in range(n):
        if rng.random() < 0.12: bag.append((None, i))
        else: bag.append(((rng.randrange(nf), 1 + rng.randrange(nl)), i))
    return bag

def stage_sort(run, cases, n):
    rng = run.rng
    reqs = []; meta = {}
    for c in range(n):
        bag = rand_bag(rng)
        rid = 3000 + c
        reqs.append({"id": rid, "op": "sortdiag", "diags": [
            {"file": "f%d.fer" % d[0][0], "line": d[0][1], "col": 1 + rng.randrange(30), "msg": "m%d" % d[1], "nil": False} if d[0] is not None
            else {"file": "", "line": 0, "col": 0, "msg": "m%d" % d[1], "nil": True} for d in bag]})
        meta[rid] = bag
    res = hook_run(reqs)
    for rid, bag in sorted(meta.items()):
        r = res[rid]
        if r.get("panic"):
            run.violation("hook-sort-panic", "sched hook failed in sortdiag: %s" % r["panic"][:300], {"request": reqs[rid - 3000]}, no_input=True)
            continue
        byid = {d[1]: d for d in bag}
        em = [byid[int(m[1:])] for m in r["emitted"]]
        if len(em) != len(bag):
            run.violation("sortdiag-lost", "EmitAll emitted %d of %d diagnostics" % (len(em), len(bag)), {"bag": bag, "emitted": r["emitted"]})
            continue
        txt = "CSort %d [%s] [%s]" % (rid, "; ".join(cq_diag(d) for d in bag), "; ".join(cq_diag(d) for d in em))
        cases.append((rid, txt, "sort", {"bag_in_add_order": bag, "emitted": em}))
        run.case(("sort", bag), len(bag) > 1, {"kind": "sortDiagnostics", "bag": bag[:6], "emitted": em[:6]} if c == 3 else None)
        run.count("sort_bags"); run.count("sort_bag_ge_21" if len(bag) > 20 else "sort_bag_small")

def stage_topo(run, cases, n):
    rng = run.rng
    reqs = []; meta = {}
    for c in range(n):
        k = rng.randint(2, 8)
        mods = ["p/m%d" % i for i in range(k)]
        rank = {m: i for i, m in enumerate(sorted(mods))}
        ne = rng.randint(0, 2 * k)
        calls = []
        for _ in range(ne):
            u, v = rng.randrange(k), rng.randrange(k)
            if rng.random() < 0.6 and u < v: u, v = v, u       # mostly DAG-ish, some cycle attempts
            calls.append((mods[u], mods[v]))
        rid = 5000 + c
        reqs.append({"id": rid, "op": "topo", "mods": mods, "calls": calls, "reps": 12})
        meta[rid] = (mods, rank, calls)
    res = hook_run(reqs)
    for rid, (mods, rank, calls) in sorted(meta.items()):
        r = res[rid]
        if r.get("panic"):
            run.violation("hook-topo-panic", "sched hook failed in topo: %s" % r["panic"][:300], {"request": reqs[rid - 5000]}, no_input=True)
            continue
        base = {m.split("/")[-1]: rank[m] for m in mods}
        rs = []
        for t in r["results"]:
            if t == "": rs.append(None)
            else:
                mm = re.match(r"circular import detected: (.*)$", t)
                rs.append([base[x] for x in mm.group(1).split(" -> ")])
        orders = r["orders"]
        if len(orders) != 1:
            run.violation("topo-order-map-dependent", "ComputeTopologicalOrder gave %d different orders for one graph" % len(orders),
                          {"mods": mods, "calls": calls, "orders": orders, "theorem": "C14_topo_perm_indep"})
            continue
        txt = "CTopo %d %s [%s] [%s] %s" % (rid, cq_nat_list(sorted(rank.values())),
                                          "; ".join("(%d, %d)" % (rank[u], rank[v]) for u, v in calls),
                                          "; ".join(cq_opt_cycle(x) for x in rs), cq_nat_list([rank[m] for m in orders[0]]))
        cases.append((rid, txt, "topo", {"mods": mods, "calls": calls, "results": r["results"], "order": orders[0]}))
        run.case(("topo", calls, len(mods)), True, {"kind": "topo", "calls": calls, "order": orders[0]} if c == 1 else None)
        run.count("topo_graphs"); run.count("topo_with_cycle_error" if any(x is not None for x in rs) else "topo_dag")

def stage_tids(run, cases, n):
    rng = run.rng
    reqs = []; meta = {}
    for c in range(n):
        k = rng.choice([1, 2, 3, 5, 9, 12])
        nums = rng.sample(range(1, 25), k)
        ids = [["__typeid_%d" % x, rng.choice(["i32", "str", "f64", "bool", "S0", "[]i32", "u8"])] for x in nums]
        rid = 7000 + c
        reqs.append({"id": rid, "op": "typeids", "ids": ids, "reps": 16})
        meta[rid] = ids
    res = hook_run(reqs)
    ok = True
    for rid, ids in sorted(meta.items()):
        r = res[rid]
        if r.get("panic"):
            run.violation("hook-tids-panic", "sched hook failed in typeids: %s" % r["panic"][:300], {"request": reqs[rid - 7000]}, no_input=True)
            continue
        outs = r["outs"]
        if len(outs) != 1:
            if ok:
                run.violation("typeids-map-order", "emitTypeIDs wrote the type-id data of one module in %d different orders "
                              "(Go map iteration order reaches the generated IL)" % len(outs),
                              {"op": "typeids (hooks/sched): qbe Generator.Emit on mir.Module{TypeIDs}", "TypeIDs": ids,
                               "output_A": outs[0], "output_B": outs[1], "theorem": "C14_typeids_perm_indep / C14_prefix_typeids_refuted"})
            ok = False
            continue
        em = re.findall(r"^data \$(\S+) =", outs[0], re.M)
        txt = "CTid %d [%s] [%s]" % (rid, "; ".join("(%s, %s)" % (cq_bytes(a), cq_bytes(b)) for a, b in ids),
                                   "; ".join(cq_bytes(x) for x in em))
        cases.append((rid, txt, "tids", {"TypeIDs": ids, "emitted": em}))
        run.case(("tids", ids), len(ids) > 1, {"kind": "typeids", "ids": ids, "emitted": em} if c == 2 else None)
        run.count("typeid_maps")
    return ok

def stage_cli(run, cases, work, plan, k):
    """plan: list of (flavour, target). Each project is compiled k times; projects run in parallel."""
    rng = run.rng
    projs = []
    for i, (flavour, target) in enumerate(plan):
        pr = gen_project(rng, flavour, i)
        d = os.path.join(work.sub("cli%d" % i), pr.pname)
        pr.write(d)
        projs.append((i, flavour, target, pr, d))
    for name, pr in corpus_projects():
        i = len(projs)
        d = os.path.join(work.sub("cli%d" % i), pr.pname)
        pr.write(d)
        projs.append((i, "corpus_" + name, "native", pr, d))
    futs = [POOL.submit(compile_runs, t[3], t[4], k, t[2]) for t in projs]
    return lambda: _collect_cli(run, cases, projs, futs)

def _collect_cli(run, cases, projs, futs):
    for (i, flavour, target, pr, d), fut in zip(projs, futs):
        obs = fut.result()
        run.count("cli_projects_" + flavour); run.count("cli_compiles", len(obs))
        run.case(("cli", pr.files(), target), True,
                 {"kind": "cli", "flavour": flavour, "target": target, "modules": sorted(pr.specs), "rc": obs[0]["rc"],
                  "kept": sorted(obs[0]["files"])} if i < 2 else None)
        if obs[0]["rc"] != 0:
            run.violation("gen-project-rejected:" + flavour, "generated %s project does not compile: %s" % (flavour, obs[0]["stderr"][:300]),
                          {"files": pr.files(), "stderr": obs[0]["stderr"][-2000:]}, no_input=True)
            continue
        diff = first_difference(obs)
        if diff is not None:
            j, what = diff
            fn_names = [observed_fn_names(pr, o) for o in obs]
            tid_orders = [tuple(re.findall(r"^data \$(__typeid_\d+)", "".join(o["files"].values()), re.M)) for o in obs]
            vt_orders = [tuple(re.findall(r"^data \$(__vtable_\d+)", "".join(o["files"].values()), re.M)) for o in obs]
            if len(set(json.dumps(x, sort_keys=True) for x in fn_names)) > 1: key = "lit-names-schedule-dependent"
            elif len(set(tid_orders)) > 1: key = "typeids-map-order"
            elif len(set(vt_orders)) > 1: key = "vtables-map-order"
            else: key = "cli-nondeterministic:" + what.split(" ")[0]
            run.violation(key, "same project compiled twice gives different results: %s (run 0 GOMAXPROCS=%s vs run %d GOMAXPROCS=%s)"
                          % (what, obs[0]["procs"], j, obs[j]["procs"]), replay_of(pr, obs, j))
            continue
        # model prediction: function-literal names per module (local numbering), order of the type-id data
        o = obs[0]
        for fn, txt in sorted(o["files"].items()):
            for kind, pat in (("vtables", r"^data \$__vtable_"), ("typeids", r"^data \$__typeid_"), ("strings", r"^data \$str"),
                              ("enumtables", r"^data \$enumtbl"), ("closures", r"function .*__func_lit__")):
                n = len(re.findall(pat, txt, re.M))
                if n >= 2: run.count("cli_files_with_ge2_" + kind)
                if n >= 4: run.count("cli_files_with_ge4_" + kind)
        if isinstance(pr, FileProject):
            continue
        if target == "native":
            got = observed_fn_names(pr, o)
            P = pr.events()
            nodes = [m for m, _ in P]
            txt = "CNames %d %s %s (round_robin %s) true [%s]" % (
                9000 + i, cq_project(P), cq_nat_list(pr.roots()), cq_project(P),
                "; ".join("(%d, %s)" % (pr.node(n), cq_names([("func", int(x.rsplit("_", 1)[1])) for x in got[n]])) for n in sorted(pr.specs)))
            cases.append((9000 + i, txt, "cli-names", {"files": pr.files(), "observed_fn_literal_names": got,
                                                         "expected": model_fn_names(pr)}))
            for n in sorted(pr.specs):
                tids = re.findall(r"^data \$(__typeid_\d+) =", o["files"].get("gen/%s_%s.ssa" % (pr.pname, n), ""), re.M)
                if len(tids) > 1:
                    txt = "CTid %d [%s] [%s]" % (9500 + 20 * i + len(cases) % 20, "; ".join("(%s, [])" % cq_bytes(a) for a in reversed(tids)),
                                               "; ".join(cq_bytes(x) for x in tids))
                    cases.append((9500 + 20 * i + len(cases) % 20, txt, "cli-tids", {"module": n, "emitted": tids, "files": pr.files()}))
                    run.count("cli_modules_with_several_typeids")

def err_projects(rng):
    """Projects whose diagnostics come from several parser goroutines but with distinct (file, line) keys and a
    single possible reporter per diagnostic (the region where the property is expected to hold)."""
    out = []
    # 1. missing modules imported on distinct lines of distinct files, each by one importer
    specs = {"m0": gen_spec(rng, "plain", prefix=30), "m1": gen_spec(rng, "plain", prefix=0), "main": gen_spec(rng, "plain", True, 0)}
    specs["main"]["imports"] = [("p/m0", "m0", True), ("p/x0", "x0", False), ("p/m1", "m1", True), ("p/x1", "x1", False)]
    specs["m0"]["imports"] = [("p/x2", "x2", False), ("p/x3", "x3", False)]
    specs["m1"]["imports"] = [("p/x4", "x4", False)]
    out.append(Project("p", specs, missing=["x0", "x1", "x2", "x3", "x4"]))
    # 2. a chain closing a cycle: main -> m0 -> m1 -> m0 ; only m1 can report it
    specs = {"m0": gen_spec(rng, "plain", prefix=rng.choice([0, 30])), "m1": gen_spec(rng, "plain", prefix=0), "main": gen_spec(rng, "plain", True, 0)}
    specs["main"]["imports"] = [("p/m0", "m0", True)]
    specs["m0"]["imports"] = [("p/m1", "m1", True)]
    specs["m1"]["imports"] = [("p/x0", "x0", False), ("p/m0", "m0", True)]
    out.append(Project("p", specs, missing=["x0"]))
    return out

def stage_cli_errors(run, cases, work, k):
    projs = err_projects(run.rng)
    items = []
    for i, pr in enumerate(projs):
        d = os.path.join(work.sub("err%d" % i), pr.pname); pr.write(d); items.append((i, pr, d))
    futs = [POOL.submit(compile_runs, t[1], t[2], k, "native", True) for t in items]
    return lambda: _collect_cli_errors(run, cases, items, futs)

def _collect_cli_errors(run, cases, items, futs):
    for (i, pr, d), fut in zip(items, futs):
        obs = fut.result()
        run.count("cli_error_projects"); run.count("cli_compiles", len(obs))
        run.case(("cli-err", pr.files()), True, {"kind": "cli-errors", "stderr": obs[0]["stderr"][:400]} if i == 0 else None)
        diff = first_difference(obs)
        if diff is not None:
            j, what = diff
            run.violation("cli-nondeterministic-diagnostics:%d" % i, "same erroneous project compiled twice gives different results: %s" % what,
                          replay_of(pr, obs, j))
            continue
        if obs[0]["rc"] == 0:
            run.violation("err-project-accepted:%d" % i, "project with missing/cyclic imports compiled successfully", {"files": pr.files()})
            continue
        ds = parse_stderr_diags(pr, obs[0]["stderr"])
        if ds is None:
            run.violation("err-project-unparsed:%d" % i, "diagnostics of the error project are not the expected import diagnostics: %s"
                          % obs[0]["stderr"][:300], {"files": pr.files(), "stderr": obs[0]["stderr"][-2000:]}, no_input=True)
            continue
        P = pr.events()
        txt = "CDiags %d %s %s (round_robin %s) [%s]" % (9800 + i, cq_project(P), cq_nat_list(pr.roots()), cq_project(P),
                                                       "; ".join(cq_diag(d) for d in ds))
        cases.append((9800 + i, txt, "cli-diags", {"files": pr.files(), "stderr": obs[0]["stderr"][-2500:], "parsed": ds}))

# ------------------------------------------------------------------ single-file semantic diagnostics (every analysis after parsing)
def semantic_diag_programs(rng):
    """Single-module programs whose diagnostics come from the analyses that run after parsing (type checker, control flow, borrow
    checker): several diagnostics per file, several candidates for each label (n live shared borrows of one place at a conflicting
    write or &' borrow, several loans of different places, several missing returns ...), so that a map iterated without sorting
    anywhere in those analyses shows as output that differs between runs (seed C14e: the binding a borrow diagnostic points at was
    picked by iterating a map)."""
    out = []
    for n in (2, 3, 4, 5):
        names = ["r%d" % i for i in range(n)]
        L = ['import "std/io";', "fn main() {", "    let x: i32 = 1;", "    let y: i32 = 2;"]
        L += ["    let %s: &i32 = &x;" % nm for nm in names]
        L += ["    let q: &i32 = &y;"]
        L += ["    x = 5;" if n % 2 == 0 else "    let m: &'i32 = &'x;"]
        L += ["    y = 6;"]
        order = names[:]; rng.shuffle(order)
        L += ["    io::Println(%s);" % nm for nm in order] + ["    io::Println(q, x);", "}", ""]
        out.append("\n".join(L))
    out.append('import "std/io";\ntype P struct { .A: i32, .B: i32 };\nfn main() {\n    let p := { .A = 1, .B = 2 } as P;\n'
               "    let a1: &i32 = &p.A;\n    let a2: &i32 = &p.A;\n    let b1: &'i32 = &'p.B;\n    let w: &P = &p;\n    p.A = 3;\n    p.B = 4;\n"
               "    io::Println(a1, a2, b1, w.A);\n}\n")
    out.append('import "std/io";\nfn f(a: i32) -> i32 { if a > 1 { return 1; } else if a > 0 { io::Println(a); } else { io::Println(0); } }\n'
               "fn g(a: i32) -> i32 { match a { 1 => { return 1; } 2 => { io::Println(2); } _ => { io::Println(3); } } }\n"
               "fn h(a: i32) -> bool { let u: i32 = true; let v: bool = 3; let w: str = u + v; return a; }\n"
               "fn main() { let z: i32 = f(1) + g(2); const k: i32 = 1; k = 2; undefined1 = 3; io::Println(z, undefined2, h(1)); }\n")
    return out

def stage_semantic_diags(run, work, k):
    progs = semantic_diag_programs(run.rng)
    im = common.impl()
    def runs(i):
        d = work.sub("sem%d" % i)
        open(os.path.join(d, "main.fer"), "w").write(progs[i])
        obs = []
        for j in range(k):
            env = dict(os.environ, NO_COLOR="1", GOMAXPROCS=PROCS[j % len(PROCS)])
            try:
                p = subprocess.run([im.ferret, "-t", "main.fer"], cwd=d, stdout=subprocess.PIPE, stderr=subprocess.PIPE, timeout=60, env=env)
                obs.append((p.returncode, common.strip_ansi(p.stdout.decode("utf8", "replace") + p.stderr.decode("utf8", "replace")), env["GOMAXPROCS"]))
            except subprocess.TimeoutExpired:
                obs.append((-9, "TIMEOUT", env["GOMAXPROCS"]))
        return obs
    futs = [POOL.submit(runs, i) for i in range(len(progs))]
    def collect():
        for i, fut in enumerate(futs):
            obs = fut.result()
            run.count("semantic_diag_programs"); run.count("cli_compiles", len(obs))
            run.case(("sem-diag", progs[i]), True)
            if obs[0][0] == 0:
                continue      # (the family is meant to be rejected; an accepted member carries no diagnostics to compare)
            for j in range(1, len(obs)):
                if obs[j][:2] != obs[0][:2]:
                    a, b = obs[0][1].splitlines(), obs[j][1].splitlines()
                    first = next((n for n, (x, y) in enumerate(zip(a, b)) if x != y), min(len(a), len(b)))
                    run.violation("cli-nondeterministic-semantic-diagnostics:%d" % i,
                                  "the same file type-checked twice gives different diagnostics (run 0 GOMAXPROCS=%s vs run %d GOMAXPROCS=%s): first differing line %d: %r vs %r"
                                  % (obs[0][2], j, obs[j][2], first, a[first] if first < len(a) else None, b[first] if first < len(b) else None),
                                  {"files": {"main.fer": progs[i]}, "cmd": "ferret -t main.fer (repeat and diff)", "run_A": obs[0][1][-3000:], "run_B": obs[j][1][-3000:]})
                    break
    return collect

# ------------------------------------------------------------------ open findings: deterministic replay + CLI sampling
def finding_projects():
    plain = lambda main=False, pre=0: dict(nfn=0, nanon=0, nenum=0, nstruct=0, ntid=0, prefix=pre, nstr=0, imports=[], is_main=main, errline=False)
    res = {}
    s = {"m0": plain(pre=80), "m1": plain(), "main": plain(True)}
    s["main"]["imports"] = [("p/m0", "m0", True), ("p/m1", "m1", True)]
    s["m0"]["imports"] = [("p/m1", "m1", True)]; s["m1"]["imports"] = [("p/m0", "m0", True)]
    res["cycle"] = Project("p", s)
    s = {"m0": plain(pre=80), "m1": plain(), "main": plain(True)}
    s["main"]["imports"] = [("p/m0", "m0", True), ("p/m1", "m1", True)]
    s["m0"]["imports"] = [("p/x0", "x0", False)]; s["m1"]["imports"] = [("p/x0", "x0", False)]
    res["missing"] = Project("p", s, missing=["x0"])
    s = {"main": plain(True)}
    s["main"]["sameline"] = [("p/x%d" % i, "x%d" % i, False) for i in range(4)]
    res["sameline"] = Project("p", s, missing=["x0", "x1", "x2", "x3"])
    return res

def stage_findings(run, work, k):
    fp = finding_projects()
    items = []
    for name, pr in sorted(fp.items()):
        d = os.path.join(work.sub("find_" + name), pr.pname); pr.write(d); items.append((name, pr, d))
    futs = [POOL.submit(compile_runs, t[1], t[2], k, "native", True) for t in items]
    ap = alias_probe(); apd = os.path.join(work.sub("find_alias"), ap.pname); ap.write(apd)
    afut = POOL.submit(compile_runs, ap, apd, max(k, 8), "native")
    return lambda: (_collect_findings(run, fp, items, futs), _collect_alias(run, ap, afut))

def _collect_alias(run, ap, afut):
    obs = afut.result()
    run.count("cli_compiles", len(obs))
    distinct = len(set(json.dumps(o["files"], sort_keys=True) for o in obs))
    run.extra.setdefault("open_finding_cli_distinct_outputs", {})["type_alias_lookup"] = distinct
    diff = first_difference(obs)
    if diff is not None:
        j, what = diff
        run.violation("C14-typename-alias-map-order", "a type name exported by several imported modules is resolved by ranging over "
                      "mod.ImportAliasMap: the vtables of main bind the methods of a different module from run to run (%s; %d distinct "
                      "outputs in %d compiles) — nondeterministic and a miscompilation" % (what, distinct, len(obs)), replay_of(ap, obs, j))

def _collect_findings(run, fp, items, futs):
    allobs = {n: f.result() for (n, _, _), f in zip(items, futs)}
    seen = {n: len(set((o["rc"], o["stderr"]) for o in allobs[n])) for n in allobs}
    run.extra["open_finding_cli_distinct_outputs"] = seen
    run.count("cli_compiles", sum(len(v) for v in allobs.values()))
    # deterministic replays at API level
    reqs = [{"id": 1, "op": "topo", "mods": ["p/m0", "p/m1", "p/main"], "calls": [["p/main", "p/m0"], ["p/main", "p/m1"], ["p/m0", "p/m1"], ["p/m1", "p/m0"]], "reps": 1},
            {"id": 2, "op": "topo", "mods": ["p/m0", "p/m1", "p/main"], "calls": [["p/main", "p/m0"], ["p/main", "p/m1"], ["p/m1", "p/m0"], ["p/m0", "p/m1"]], "reps": 1},
            {"id": 3, "op": "sortdiag", "diags": [{"file": "main.fer", "line": 2, "col": 1, "msg": "m1", "nil": False}, {"file": "main.fer", "line": 2, "col": 20, "msg": "m2", "nil": False}]},
            {"id": 4, "op": "sortdiag", "diags": [{"file": "main.fer", "line": 2, "col": 20, "msg": "m2", "nil": False}, {"file": "main.fer", "line": 2, "col": 1, "msg": "m1", "nil": False}]}]
    r = hook_run(reqs)
    def two(name):
        o = allobs[name]
        outs = []
        for x in o:
            if (x["rc"], x["stderr"]) not in [(y["rc"], y["stderr"]) for y in outs]: outs.append(x)
        return {"files": fp[name].files(), "cli_runs": len(o), "cli_distinct_outputs": len(outs),
                "stderr_A": outs[0]["stderr"][-1500:], "stderr_B": (outs[1]["stderr"][-1500:] if len(outs) > 1 else None)}
    if not r[1].get("panic") and not r[2].get("panic") and r[1]["results"] != r[2]["results"]:
        rp = two("cycle"); rp.update({"api_replay": {"calls_A": reqs[0]["calls"], "results_A": r[1]["results"],
                                                     "calls_B": reqs[1]["calls"], "results_B": r[2]["results"]},
                                      "theorem": "C14_cycle_site_refuted"})
        run.violation("C14_cycle_site_refuted", "which module reports a circular import (and the cycle text) depends on the order in which "
                      "the parser goroutines call AddDependency", rp)
    if not r[3].get("panic") and not r[4].get("panic") and r[3]["emitted"] != r[4]["emitted"]:
        rp = two("sameline"); rp.update({"api_replay": {"add_order_A": reqs[2]["diags"], "emitted_A": r[3]["emitted"],
                                                        "add_order_B": reqs[3]["diags"], "emitted_B": r[4]["emitted"]},
                                         "theorem": "C14_same_line_diag_refuted"})
        run.violation("C14_same_line_diag_refuted", "diagnostics on the same (file, line) reported by different goroutines are emitted in "
                      "arrival order (sortDiagnostics compares file and line only)", rp)
    # missing module requested from two importers: no exported entry point below the pipeline; the model's
    # refuted theorem is the report, the CLI sample is attached
    rp = two("missing"); rp["theorem"] = "C14_missing_site_refuted"
    run.violation("C14_missing_site_refuted", "a missing module imported by two modules is reported at the import of whichever importer's "
                  "goroutine calls processModule first", rp)

# ------------------------------------------------------------------ main
# `range` over Go maps on the path from MIR generation to the emitted bytes, and what exercises each
KNOWN_MAP_RANGES = {
    "internal/mir/gen/mirgen.go:g.vtables": "keys sorted since 5615a8f; projects `ifaces` (>= 4 vtables per module, cross-module conversions) and corpus/C14/vtables",
    "internal/mir/gen/mirgen.go:g.typeIDGlobals": "copied into mir.Module.TypeIDs (a map; order irrelevant); projects `tids`/`ifaces` (>= 4 type ids per module)",
    "internal/codegen/qbe_embeddings/qbe.go:g.mirMod.TypeIDs": "keys sorted since d3c2a82; hook op `typeids` (16 repetitions per map) + projects `tids`/`ifaces`; theorem C14_typeids_perm_indep",
    "internal/codegen/qbe_embeddings/qbe.go:g.hoistedAllocaIDs": "only deletes every key (order irrelevant)",
    "internal/mir/gen/interface.go:g.mod.ImportAliasMap": "first imported module exporting a type of that name wins: deterministic only when the name is unique among the imports; `ifaces` projects convert imported types (unique names); same-name case = open finding F-C14-TYPE-ALIAS-LOOKUP (alias probe, compiled 8x)",
    "internal/mir/gen/builder.go:b.gen.mod.ImportAliasMap": "same lookup as interface.go (method calls on imported named types); covered by the same projects / finding",
    "internal/mir/gen/builder.go:captures": "a slice parameter (the name is shared with the map field b.captures, which is only indexed); closures with captured variables are in the `ifaces` projects",
    "internal/codegen/wasm/emit.go:gen.imports": "names collected then sorted; project `wasm` (.wasm bytes compared)",
    "internal/codegen/wasm/emit.go:gen.funcs": "names collected then sorted; project `wasm`",
    "internal/codegen/wasm/emit.go:g.funcs": "collectImports: fills the imports map (sorted later); only the order of error reports could vary — not exercised",
    "internal/pipeline/runtime_audit.go:p.ctx.Modules": "adds diagnostics only when a native symbol has no runtime implementation — not reachable with a consistent runtime, not exercised",
    "internal/pipeline/runtime_audit.go:mod.ModuleScope.GetAllSymbols()": "as above",
}

def scan_map_ranges():
    """Heuristic source scan (evidence only): `range X` where X's last identifier is declared with a map type in the
    same package directory. Sites not in KNOWN_MAP_RANGES are listed as unreviewed."""
    dirs = ["internal/mir/gen", "internal/mir", "internal/codegen/qbe_embeddings", "internal/codegen/wasm", "internal/pipeline"]
    extra_maps = {"Modules", "DepGraph", "ImportAliasMap", "TypeIDs", "GetAllSymbols()", "Artifacts"}
    found = {}
    for d in dirs:
        full = os.path.join(common.REPO, d)
        if not os.path.isdir(full): continue
        srcs = {fn: open(os.path.join(full, fn)).read() for fn in sorted(os.listdir(full)) if fn.endswith(".go") and not fn.endswith("_test.go")}
        names = set(extra_maps)
        for txt in srcs.values():
            names |= set(re.findall(r"^\s*(\w+)\s+map\[", txt, re.M))
            names |= set(re.findall(r"(\w+)\s*:?=\s*make\(map\[", txt))
            names |= set(re.findall(r"(\w+)\s*:=\s*map\[", txt))
        for fn, txt in srcs.items():
            for m in re.finditer(r"\brange\s+([\w\.\(\)]+)\s*\{", txt):
                expr = m.group(1)
                if expr.split(".")[-1] in names:
                    found["%s/%s:%s" % (d, fn, expr)] = None
    out = {}
    for site in sorted(found):
        out[site] = KNOWN_MAP_RANGES.get(site, "UNREVIEWED (local lookup/index map or new code): differential CLI projects are the only cover")
    return out

def report_once(run):
    """one VIOLATION line per key: the first failing input of a family is the replay"""
    orig = run.violation
    seen = set()
    def v(key, what, replay, no_input=False):
        if key in seen: return False
        seen.add(key)
        return orig(key, what, replay, no_input)
    run.violation = v

def setup():
    common.impl(); common.build_hook("sched")

def main(run):
    thorough = run.tier == "thorough"
    report_once(run)
    import time
    T = [time.time()]
    def lap(name):
        run.extra.setdefault("stage_seconds", {})[name] = round(time.time() - T[0], 1); T[0] = time.time()
    work = Work()
    common.impl(); common.build_hook("sched")
    run.rule = ("a case is one (input, schedule/order) pair: module texts + parse order, diagnostic bag in Add order, AddDependency call "
                "sequence, TypeIDs map, or a generated multi-module project + target; distinct = sha256 of that input")
    run.trusted += ["hooks/sched/main.go (drives lexer/parser, DiagnosticBag, context_v2, qbe Generator through exported APIs)",
                    "harness/c14.py: project generator (the event list of a module is derived from its description), stderr/.ssa readers",
                    "Go runtime scheduler and map-iteration randomisation as the source of schedules on the implementation side (sampled, not enumerated)"]
    run.assumptions = ["every modelled diagnostic carries a primary label (label-less diagnostics make the comparator of sortDiagnostics intransitive and are outside the model)",
                       "sort.SliceStable computes the unique stable sort for a strict weak order (checked against the implementation with bags up to 55 entries)",
                       "within one goroutine parseModule is sequential: lexer and parser diagnostics and literal allocations, then AddDependency per import, then processModule per import",
                       "phases after parsing are sequential (no goroutines in internal/pipeline besides processModule) — re-checked by a source scan",
                       "all interleavings are proved in the model and sampled on the implementation (k runs under GOMAXPROCS 1/2/16)"]
    run.extra["gates"] = ["generated projects keep diagnostics of different goroutines on distinct (file, line) keys [F-C14-SAMELINE-DIAG]",
                          "no module is both missing and imported by two modules [F-C14-MISSING-SITE]",
                          "import cycles in generated projects can be closed by one module only [F-C14-CYCLE-SITE]",
                          "type names exported by the modules of a generated project are unique across the project [F-C14-TYPE-ALIAS-LOOKUP]"]
    # source scan: the only goroutines of the pipeline are the parser goroutines
    gos = []
    pd = os.path.join(common.REPO, "internal", "pipeline")
    for fn in sorted(os.listdir(pd)):
        if fn.endswith(".go") and not fn.endswith("_test.go"):
            for ln, line in enumerate(open(os.path.join(pd, fn)), 1):
                if re.search(r"\bgo\s+(func\b|\w+[\.(])", line): gos.append("%s:%d" % (fn, ln))
    run.extra["goroutine_sites"] = gos
    if len(gos) != 1 or not gos[0].startswith("parse.go:"):
        run.violation("goroutine-sites", "the pipeline starts goroutines at %s; the model covers the parser goroutines of parse.go only" % gos,
                      {"sites": gos}, no_input=True)

    lap("build")
    # the CLI compilations run in the background while the proof and the in-process stages are checked
    k = 60 if thorough else 6
    plan = [("lits", "native"), ("ifaces", "native"), ("ifaces", "native"), ("tids", "native"), ("wasm", "wasm")]
    if thorough: plan = plan * 2 + [("lits", "native"), ("wasm", "native"), ("ifaces", "native")]
    run.extra["map_range_sites"] = scan_map_ranges()
    clicases = []
    pending = [stage_cli(run, clicases, work, plan, k if not thorough else 30),
               stage_cli_errors(run, clicases, work, k if not thorough else 30),
               stage_findings(run, work, 6 if not thorough else 45),
               stage_semantic_diags(run, work, 14 if not thorough else 60)]
    lap("cli_submit")
    ok = run.proof("Props/C14.v"); lap("proof")
    if not ok:
        where, log = run.proof_failure
        run.violation("proof:C14:" + where, "Props/C14 no longer checks (%s)" % where,
                      {"theorem_file": "coq/Props/C14.v", "where": where, "log": log}, no_input=True)

    cases = []
    stage_parse(run, cases, 60 if thorough else 14); lap("stage_parse")
    stage_sort(run, cases, 400 if thorough else 60); lap("stage_sort")
    stage_topo(run, cases, 400 if thorough else 60); lap("stage_topo")
    stage_tids(run, cases, 120 if thorough else 24); lap("stage_tids")
    for fin in pending:
        fin()
    lap("cli_wait")
    cases += clicases
    bad = coq_cases("q", [(i, t) for i, t, _, _ in cases]); lap("coq_cases")
    run.extra["model_cases"] = len(cases)
    for i, t, kind, info in cases:
        if i in bad:
            keymap = {"parse": "lit-names-schedule-dependent", "cli-names": "lit-names-schedule-dependent",
                      "tids": "typeids-map-order", "cli-tids": "typeids-map-order"}
            key = keymap.get(kind) or "model-mismatch:%s" % kind      # one report per family; the first failing case is the replay
            what = {"parse": "literal names allocated by the real parser differ from per-module numbering (names depend on the parse order)",
                    "cli-names": "function-literal names in the generated code differ from per-module numbering",
                    "sort": "sortDiagnostics emitted an order different from the stable sort by (nil-last, file, line)",
                    "topo": "AddDependency results / ComputeTopologicalOrder differ from the model (for two map iteration orders)",
                    "tids": "type-id data is not emitted in sorted key order", "cli-tids": "type-id data in the .ssa is not in sorted key order",
                    "cli-diags": "diagnostics of the project differ from the model's prediction (order or content)"}[kind]
            info = dict(info); info["coq_case"] = t[:4000]
            run.violation(key, what, info)

def replay(run, path):
    r = json.load(open(path))
    print(json.dumps(r, indent=1)[:20000])
    return 0
