"""C03 — statically ill-typed programs are rejected.
Proof stage: Props/C03.v (closure of the reference checker over all contexts + per-rule inversion).
Tie: well-typed FerretCore base programs x injection sites x rule classes -> mutants; the reference checker (evaluated
in Coq) must reject each mutant, and so must the real compiler (error diagnostic, no executable).
Classes outside the FerretCore fragment (optional, struct fields, fixed-array initialisers, results) are exercised from
templates planted into generated contexts: exploration only, flagged as such in the evidence."""
import os, json, hashlib, copy
import common, core, c01
from common import Work

NARROWER = {  # source type -> targets that cannot hold every source value (so implicit use must be rejected)
}
for s in core.ITYS:
    NARROWER[s] = [t for t in core.ITYS if t != s and not (core.tmin(t) <= core.tmin(s) and core.tmax(s) <= core.tmax(t))]

# ---------------------------------------------------------------- typing of the neutral AST (python mirror, for site selection)

def expr_type(e, env, fns):
    k = e[0]
    if k == "lit": return e[1]
    if k == "bool": return "bool"
    if k == "str": return "str"
    if k == "elit": return "E%d" % e[1]
    if k == "var": return env.get(e[1])
    if k == "bin":
        if e[1] in core.ARITH: return expr_type(e[2], env, fns)
        return "bool"
    if k == "un": return "bool" if e[1] == "!" else expr_type(e[2], env, fns)
    if k == "cast": return e[2]
    if k == "call": return fns[e[1]][1]
    if k == "slit": return "S%d" % e[1]
    if k == "field":
        bt = expr_type(e[1], env, fns)
        return core.fields_of(bt)[e[2]] if bt and core.is_struct(bt) else None
    return None

def has_typed_leaf(e):
    k = e[0]
    if k in ("var", "call", "cast", "field"): return True
    if k == "bin" and e[1] in core.ARITH: return has_typed_leaf(e[2]) or has_typed_leaf(e[3])
    if k == "un": return has_typed_leaf(e[2])
    return False

class Site:
    """a mutable path to an expression or statement inside a deep-copied program"""
    def __init__(self, kind, holder, idx, env, ctx, fn_index, ret):
        self.kind = kind; self.holder = holder; self.idx = idx; self.env = env; self.ctx = ctx
        self.fn_index = fn_index; self.ret = ret
    def get(self): return self.holder[self.idx]
    def set(self, v): self.holder[self.idx] = v

def collect_sites(prog):
    """prog must be a mutable (list-based) copy. Returns (expr sites, stmt sites)."""
    fns = [([t for _, t in f["params"]], f["ret"]) for f in prog]
    esites, ssites = [], []
    def walk_expr(holder, idx, env, ctx, fi, ret):
        e = holder[idx]
        esites.append(Site("expr", holder, idx, dict(env), ctx, fi, ret))
        k = e[0]
        if k == "bin":
            walk_expr(e, 2, env, ctx + ("operand",), fi, ret); walk_expr(e, 3, env, ctx + ("operand",), fi, ret)
        elif k == "un": walk_expr(e, 2, env, ctx + ("unary",), fi, ret)
        elif k == "cast": walk_expr(e, 1, env, ctx + ("cast",), fi, ret)
        elif k == "call":
            for i in range(len(e[2])): walk_expr(e[2], i, env, ctx + ("arg",), fi, ret)
        elif k == "slit":
            for i in range(len(e[2])): walk_expr(e[2], i, env, ctx + ("field-init",), fi, ret)
        elif k == "field": walk_expr(e, 1, env, ctx + ("field-base",), fi, ret)
    def walk_block(b, env, ctx, fi, ret):
        env = dict(env)
        for i in range(len(b)):
            s = b[i]
            ssites.append(Site("stmt", b, i, dict(env), ctx, fi, ret))
            k = s[0]
            if k == "let":
                walk_expr(s, 3, env, ctx + ("let-init",), fi, ret); env[s[1]] = s[2]
            elif k == "assign": walk_expr(s, 2, env, ctx + ("assign-rhs",), fi, ret)
            elif k == "cassign": walk_expr(s, 3, env, ctx + ("compound-rhs",), fi, ret)
            elif k == "assignf": walk_expr(s, 3, env, ctx + ("field-assign-rhs",), fi, ret)
            elif k == "cassignf": walk_expr(s, 4, env, ctx + ("field-compound-rhs",), fi, ret)
            elif k == "if":
                walk_expr(s, 1, env, ctx + ("if-cond",), fi, ret)
                walk_block(s[2], env, ctx + ("then",), fi, ret); walk_block(s[3], env, ctx + ("else",), fi, ret)
            elif k == "while":
                walk_expr(s, 1, env, ctx + ("while-cond",), fi, ret); walk_block(s[2], env, ctx + ("loop",), fi, ret)
            elif k == "for":
                walk_expr(s, 3, env, ctx + ("for-lo",), fi, ret); walk_expr(s, 4, env, ctx + ("for-hi",), fi, ret)
                if len(s) > 7 and s[7] is not None: walk_expr(s, 7, env, ctx + ("for-step",), fi, ret)
                e2 = dict(env); e2[s[1]] = s[2]
                walk_block(s[5], e2, ctx + ("for-body",), fi, ret)
            elif k == "match":
                walk_expr(s, 1, env, ctx + ("match-subject",), fi, ret)
                for j in range(len(s[3])): walk_block(s[3][j][1], env, ctx + ("match-arm",), fi, ret)
                if s[4] is not None: walk_block(s[4], env, ctx + ("match-default",), fi, ret)
            elif k == "return" and s[1] is not None: walk_expr(s, 1, env, ctx + ("return",), fi, ret)
            elif k == "print":
                for j in range(len(s[1])): walk_expr(s[1], j, env, ctx + ("print-arg",), fi, ret)
            elif k == "expr": walk_expr(s, 1, env, ctx + ("call-stmt",), fi, ret)
            elif k == "block": walk_block(s[1], env, ctx + ("block",), fi, ret)
    for fi, f in enumerate(prog):
        env = {x: core.base_ty(t) for x, t in f["params"]}       # inside its function a by-reference parameter is used like a value
        walk_block(f["body"], env, ("fn" if fi < len(prog) - 1 else "main",), fi, f["ret"])
    return esites, ssites, fns

def mutable(prog):
    def me(e):
        e = list(e)
        if e[0] == "bin": e[2] = me(e[2]); e[3] = me(e[3])
        elif e[0] == "un": e[2] = me(e[2])
        elif e[0] == "cast": e[1] = me(e[1])
        elif e[0] == "call": e[2] = [me(a) for a in e[2]]
        elif e[0] == "slit": e[2] = [me(a) for a in e[2]]
        elif e[0] == "field": e[1] = me(e[1])
        return e
    def mb(b): return [ms(s) for s in b]
    def ms(s):
        s = list(s)
        k = s[0]
        if k == "let": s[3] = me(s[3])
        elif k == "assign": s[2] = me(s[2])
        elif k == "cassign": s[3] = me(s[3])
        elif k == "assignf": s[3] = me(s[3])
        elif k == "cassignf": s[4] = me(s[4])
        elif k == "if": s[1] = me(s[1]); s[2] = mb(s[2]); s[3] = mb(s[3])
        elif k == "while": s[1] = me(s[1]); s[2] = mb(s[2])
        elif k == "for":
            s[3] = me(s[3]); s[4] = me(s[4]); s[5] = mb(s[5])
            if len(s) > 7 and s[7] is not None: s[7] = me(s[7])
        elif k == "match": s[1] = me(s[1]); s[3] = [[v, mb(b)] for v, b in s[3]]; s[4] = mb(s[4]) if s[4] is not None else None
        elif k == "return" and s[1] is not None: s[1] = me(s[1])
        elif k == "print": s[1] = [me(a) for a in s[1]]
        elif k == "expr": s[1] = me(s[1])
        elif k == "block": s[1] = mb(s[1])
        return s
    return [dict(params=list(f["params"]), ret=f["ret"], body=mb(f["body"]), method=bool(f.get("method"))) for f in prog]

def var_of_type(env, pred, rng):
    c = [x for x, t in env.items() if pred(t)]
    return rng.choice(c) if c else None

def inject(prog, cls, rng):
    """returns (mutant, context tuple) or None if the class is not applicable to this program"""
    m = mutable(prog)
    esites, ssites, fns = collect_sites(m)
    rng.shuffle(esites); rng.shuffle(ssites)
    if cls == "mixed-operands":
        for s in esites:
            e = s.get()
            # arithmetic only: Ferret compares integers of different types after implicit widening (not in the catalogue);
            # the operand that stays must carry a type of its own (a bare literal would simply adapt to the new operand)
            if e[0] == "bin" and e[1] in core.ARITH:
                t = expr_type(e[2], s.env, fns)
                if t in core.ITYS:
                    side = [i for i in (2, 3) if has_typed_leaf(e[5 - i])]
                    x = var_of_type(s.env, lambda u: u in core.ITYS and u != t, rng)
                    if x is not None and side:
                        e[rng.choice(side)] = ["var", x]
                        return m, s.ctx + ("bin",)
    if cls == "implicit-narrowing":
        for s in ssites:
            st = s.get()
            if st[0] == "let" and st[2] in core.ITYS:
                x = var_of_type(s.env, lambda u: u in core.ITYS and st[2] in NARROWER[u], rng)
                if x is not None:
                    st[3] = ["var", x]; return m, s.ctx + ("let",)
            if st[0] == "assign" and s.env.get(st[1]) in core.ITYS:
                t = s.env[st[1]]
                x = var_of_type(s.env, lambda u: u in core.ITYS and t in NARROWER[u], rng)
                if x is not None:
                    st[2] = ["var", x]; return m, s.ctx + ("assign",)
    if cls == "nonbool-condition":
        for s in ssites:
            st = s.get()
            if st[0] in ("if", "while"):
                x = var_of_type(s.env, lambda u: u in core.ITYS, rng)
                if x is not None:
                    if st[0] == "while":   # keep termination irrelevant: the program must not compile at all
                        pass
                    st[1] = ["var", x]; return m, s.ctx + (st[0] + "-cond",)
    if cls == "nonbool-logical":
        for s in esites:
            e = s.get()
            if e[0] == "bin" and e[1] in ("&&", "||"):
                x = var_of_type(s.env, lambda u: u in core.ITYS, rng)
                if x is not None:
                    e[2 if rng.random() < 0.5 else 3] = ["var", x]; return m, s.ctx + ("logical",)
            if e[0] == "un" and e[1] == "!":
                x = var_of_type(s.env, lambda u: u in core.ITYS, rng)
                if x is not None:
                    e[2] = ["var", x]; return m, s.ctx + ("not",)
    if cls == "nonbool-logical-literal":
        # an untyped numeric literal / constant expression as operand of a logical operator
        lit = rng.choice([["lit", "i32", 1], ["lit", "i32", 0], ["bin", "+", ["lit", "i32", 2], ["lit", "i32", 5]]])
        for s in esites:
            e = s.get()
            if e[0] == "bin" and e[1] in ("&&", "||"):
                e[2 if rng.random() < 0.5 else 3] = lit; return m, s.ctx + ("logical",)
            if e[0] == "un" and e[1] == "!":
                e[2] = lit; return m, s.ctx + ("not",)
    if cls == "nonbool-condition-literal":
        for s in ssites:
            st = s.get()
            if st[0] in ("if", "while"):
                st[1] = ["lit", "i32", 1]; return m, s.ctx + (st[0] + "-cond",)
    if cls == "arith-bool-operand":
        for s in esites:
            e = s.get()
            if e[0] == "bin" and e[1] in core.ARITH:
                x = var_of_type(s.env, lambda u: u == "bool", rng)
                e[2 if rng.random() < 0.5 else 3] = ["var", x] if (x is not None and rng.random() < 0.6) else ["bool", True]
                return m, s.ctx + ("bin",)
    if cls in ("arity-missing", "arity-extra", "arg-type"):
        for s in esites:
            e = s.get()
            if e[0] == "call":
                if cls == "arity-missing" and e[2]:
                    e[2].pop(rng.randrange(len(e[2]))); return m, s.ctx + ("call",)
                if cls == "arity-extra":
                    e[2].append(["lit", "i32", 1]); return m, s.ctx + ("call",)
                if cls == "arg-type" and e[2]:
                    i = rng.randrange(len(e[2]))
                    pt = fns[e[1]][0][i]
                    if pt == "bool":
                        x = var_of_type(s.env, lambda u: u in core.ITYS, rng)
                    else:
                        x = var_of_type(s.env, lambda u: u == "bool" or (u in core.ITYS and pt in NARROWER[u]), rng)
                    if x is not None:
                        e[2][i] = ["var", x]; return m, s.ctx + ("call",)
    if cls == "undefined-name":
        for s in esites:
            e = s.get()
            if e[0] == "var":
                e[1] = 9999; return m, s.ctx
    if cls == "redeclared":
        for s in ssites:
            st = s.get()
            if st[0] == "let":
                s.holder.insert(s.idx + 1, ["let", st[1], st[2], copy.deepcopy(st[3]), False]); return m, s.ctx + ("let",)
    if cls == "redeclared-param":
        # a local at the top level of a function (or method) body re-using the name of a parameter / of the receiver
        fis = [fi for fi, f in enumerate(m) if f["params"]]
        rng.shuffle(fis)
        fis.sort(key=lambda fi: not m[fi].get("method"))        # methods first: their bodies are collected by separate code
        for fi in fis:
            f = m[fi]
            x, t = rng.choice(f["params"]) if not f.get("method") or rng.random() < 0.5 else f["params"][0]
            t = core.base_ty(t)
            if core.is_struct(t):
                init = ["slit", core.sid_of(t), [["lit", ft, 1] for ft in core.fields_of(t)]]
            else:
                init = ["bool", True] if t == "bool" else (["str", "q"] if t == "str" else ["lit", t, 1])
            pos = rng.randrange(0, min(3, len(f["body"])) + 1)
            f["body"].insert(pos, ["let", x, t, init, rng.random() < 0.5])
            return m, (("method" if f.get("method") else "fn"), "receiver" if (f.get("method") and x == f["params"][0][0]) else "param", "let")
    if cls == "wrong-return-type":
        for s in ssites:
            st = s.get()
            if st[0] == "return" and st[1] is not None:
                if s.ret == "bool":
                    x = var_of_type(s.env, lambda u: u in core.ITYS, rng)
                else:
                    x = var_of_type(s.env, lambda u: u == "bool" or (u in core.ITYS and s.ret in NARROWER[u]), rng)
                if x is not None:
                    st[1] = ["var", x]; return m, s.ctx + ("return",)
    if cls == "missing-return-value":
        for s in ssites:
            st = s.get()
            if st[0] == "return" and st[1] is not None:
                st[1] = None; return m, s.ctx + ("return",)
    if cls == "return-value-in-void":
        for s in ssites:
            if s.ret == "void" and s.get()[0] in ("print", "assign"):
                s.holder.insert(s.idx, ["if", ["bool", False], [["return", ["lit", "i32", 1]]], []]); return m, s.ctx + ("return",)
    if cls == "struct-unknown-field":
        for s in esites:
            e = s.get()
            if e[0] == "field":
                bt = expr_type(e[1], s.env, fns)
                if bt and core.is_struct(bt) and not core.is_array(bt):
                    e[2] = len(core.fields_of(bt)); return m, s.ctx + ("field-read",)
        for s in ssites:
            st = s.get()
            if st[0] == "assignf" and not core.is_array(s.env[st[1]]):
                st[2] = len(core.fields_of(s.env[st[1]])); return m, s.ctx + ("field-assign",)
    if cls == "struct-missing-field":
        for s in esites:
            e = s.get()
            if e[0] == "slit" and len(e[2]) > 0 and not core.is_array_sid(e[1]):      # fewer initialisers than a fixed array holds are legal
                e[2].pop(); return m, s.ctx + ("struct-literal",)
    if cls == "struct-extra-field":
        for s in esites:
            e = s.get()
            if e[0] == "slit":
                e[2].append(["lit", "i32", 1]); return m, s.ctx + ("array-literal" if core.is_array_sid(e[1]) else "struct-literal",)
    if cls == "struct-mistyped-field":
        cands = []
        for s in esites:
            e = s.get()
            if e[0] == "slit":
                for i, ft in enumerate(core.STRUCTS[e[1]]):
                    cands.append(("init", s, e, i, ft))
        for s in ssites:
            st = s.get()
            if st[0] == "assignf":
                cands.append(("assign", s, st, None, core.fields_of(s.env[st[1]])[st[2]]))
        rng.shuffle(cands)
        for kind, s, node, i, ft in cands:
            x = var_of_type(s.env, lambda u: u == "bool" or (u in core.ITYS and ft in NARROWER[u]) or (core.is_struct(u) and rng.random() < 0.3), rng)
            if x is None: continue
            if kind == "init":
                node[2][i] = ["var", x]; return m, s.ctx + ("struct-literal",)
            node[3] = ["var", x]; return m, s.ctx + ("field-assign",)
    if cls == "struct-type-mismatch":
        for s in ssites:
            st = s.get()
            if st[0] == "let" and core.is_struct(st[2]):
                x = var_of_type(s.env, lambda u: u != st[2], rng)
                if x is not None:
                    st[3] = ["var", x]; return m, s.ctx + ("let",)
            if st[0] == "assign" and core.is_struct(s.env.get(st[1]) or ""):
                t = s.env[st[1]]
                x = var_of_type(s.env, lambda u: u != t, rng)
                if x is not None:
                    st[2] = ["var", x]; return m, s.ctx + ("assign",)
    if cls == "field-of-non-struct":
        for s in esites:
            e = s.get()
            if e[0] == "field" and e[1][0] == "var":
                x = var_of_type(s.env, lambda u: u in core.ITYS or u == "bool", rng)
                if x is not None:
                    e[1] = ["var", x]; return m, s.ctx + ("field-read",)
    if cls == "call-non-function":
        for s in esites:
            e = s.get()
            if e[0] == "call":
                x = var_of_type(s.env, lambda u: u in core.ITYS, rng)
                if x is not None:
                    e[0] = "callvar"; e[1] = x; return m, s.ctx + ("call",)
    return None

CLASSES = ["mixed-operands", "implicit-narrowing", "nonbool-condition", "nonbool-logical", "arity-missing", "arity-extra",
           "arg-type", "undefined-name", "redeclared", "wrong-return-type", "missing-return-value", "return-value-in-void",
           "call-non-function", "nonbool-logical-literal", "nonbool-condition-literal",
           "struct-unknown-field", "struct-missing-field", "struct-extra-field", "struct-mistyped-field", "struct-type-mismatch",
           "field-of-non-struct", "redeclared-param"]
# "arith-bool-operand" (`10 - true`, untyped literal with a bool/str operand) is accepted by the unchanged compiler, but arithmetic on
# non-numeric operands is not in the property's catalogue: the class is implemented above and deliberately NOT enabled.

# rendering of the extra node kind
_r_expr0 = core.r_expr
def r_expr(e):
    if e[0] == "callvar":
        return "v%d(%s)" % (e[1], ", ".join(r_expr(a) for a in e[2]))
    return _r_expr0(e)      # core's renderer recurses through the module-level name, i.e. through this function
_c_expr0 = core.c_expr
def c_expr(e, types=None):
    if e[0] == "callvar":
        return "(ECall 9999 [%s])" % "; ".join(c_expr(a) for a in e[2])
    return _c_expr0(e)
core.r_expr = r_expr
core.c_expr = c_expr

# ---------------------------------------------------------------- classes outside the FerretCore fragment (templates)

TEMPLATES = {
 "optional-where-T": ("let o: i32? = 5;\n", "let n: i32 = o;"),
 "unknown-field": ("let p := { .X = 1, .Y = 2 } as Pt;\n", "let q: i32 = p.Z;"),
 "missing-field": ("", "let p := { .X = 1 } as Pt;"),
 "mistyped-field": ("", "let p := { .X = true, .Y = 2 } as Pt;"),
 "excess-initialisers": ("", "let a: [2]i32 = [1, 2, 3];"),
 "unhandled-result": ("", "let r: i32 = mayfail(1);"),
 "error-return-in-non-result": ("", 'return "boom"!;'),
 "optional-or-narrowing": ("let o: i32? = 5;\nlet fl: bool = true;\n", "if o != none || fl { let n: i32 = o; }"),
 "optional-or-narrowing-rhs": ("let o: i32? = 5;\nlet fl: bool = true;\n", "if fl || o != none { let n: i32 = o; }"),
 "float-to-int": ("let fl: f64 = 1.5;\n", "let n: i32 = fl;"),
 "mixed-int-float": ("let fl: f64 = 1.5;\nlet iv: i32 = 2;\n", "let z := fl + iv;"),
 # found on the unmodified tree through seeders' side notes, repaired by 071c136 / cadadb1 (the second one crashed the checker)
 "float-literal-compound": ("let iv: i32 = 2;\n", "iv += 2.5;"),
 "float-literal-compound-mul": ("let uv: u8 = 2;\n", "uv *= 1.5;"),
 "catch-fallback-wider": ("let w: i64 = 5;\n", "let r: i32 = mayfail(1) catch w;"),
 "catch-fallback-float": ("", "let r: i32 = mayfail(1) catch 2.5;"),
 # the unhandled-result rule for every kind of callee (seed C03f: lost for variadic callees), and the argument rules of variadic calls
 "unhandled-result-variadic": ("", "let r: i32 = vfail(2, 1, 2, 3);"),
 "unhandled-result-variadic-stmt": ("", "vfail(2, 4, 5);"),
 "unhandled-result-variadic-noargs": ("", "let r: i32 = vfail(2);"),
 "unhandled-result-method": ("let ac := { .Base = 1 } as Acc;\n", "let r: i32 = ac.mfail(3);"),
 "unhandled-result-stmt": ("", "mayfail(1);"),
 "variadic-arg-type": ("", "let r: i32 = vsum(2, 1, true, 3);"),
 "variadic-fixed-arg-missing": ("", "let r: i32 = vsum();"),
 "variadic-arg-float": ("let fl: f64 = 1.5;\n", "let r: i32 = vsum(2, fl);"),
 "optional-and-else-narrowing": ("let o: i32? = 5;\nlet fl: bool = true;\n", "if fl && o == none { } else { let n: i32 = o; }"),
 "optional-or-narrowing-relational": ("let o: i32? = 5;\nlet k: i32 = 3;\n", "if k > 2 || o != none { let n: i32 = o; }"),
}
TEMPLATE_CONTEXTS = {
 "function": "fn ctx() {\n%s\n}\nfn main() { ctx(); }\n",
 "method": "type Box struct { .V: i32 };\nfn (b: &Box) m() {\n%s\n}\nfn main() { let b := { .V = 1 } as Box; b.m(); }\n",
 "closure": "fn main() {\n let k := fn() {\n%s\n };\n k();\n}\n",
 "loop": "fn main() {\n let i: i32 = 0;\n while i < 2 {\n i += 1;\n%s\n }\n}\n",
 "if-branch": "fn main() {\n let c: bool = true;\n if c {\n%s\n } else {\n }\n}\n",
 "match-arm": "fn main() {\n let v: i32 = 1;\n match v {\n 1 => {\n%s\n }\n _ => { }\n }\n}\n",
}
TEMPLATE_PRELUDE = ('import "std/io";\ntype Pt struct { .X: i32, .Y: i32 };\nfn mayfail(a: i32) -> str ! i32 { if a == 0 { return "zero"!; } return a; }\n'
                    'fn vfail(scale: i32, nums: ...i32) -> str ! i32 { let sum: i32 = 0; for n in nums { sum = sum + n; } if sum == 0 { return "none"!; } return sum * scale; }\n'
                    'fn vsum(scale: i32, nums: ...i32) -> i32 { let sum: i32 = 0; for n in nums { sum = sum + n; } return sum * scale; }\n'
                    'type Acc struct { .Base: i32 };\nfn (a: Acc) mfail(k: i32) -> str ! i32 { if k == 0 { return "zero"!; } return a.Base + k; }\n')

def template_programs():
    out = []
    for cls, (pre, bad) in TEMPLATES.items():
        for cname, ctx in TEMPLATE_CONTEXTS.items():
            good = TEMPLATE_PRELUDE + ctx % (pre + "let ok9: i32 = 1;")
            mut = TEMPLATE_PRELUDE + ctx % (pre + bad)
            out.append((cls, cname, good, mut))
    return out

# ---------------------------------------------------------------- main

def reference_rejects(name, muts, shard=300):
    """evaluate `accepts` of the reference checker on every mutant in Coq; returns set of ids the reference ACCEPTS"""
    acc = set()
    ids = list(range(len(muts)))
    shards = [ids[i:i + shard] for i in range(0, len(ids), shard)]
    def one(k):
        v = ["From Coq Require Import String ZArith List.", "From FV Require Import Core.Syntax Core.Typing.", "Import ListNotations.",
             "Definition structs : structs_t := %s." % core.structs_coq(),
             "Definition cases : list (Z * prog) := ["]
        v.append(";\n".join("(%d%%Z, %s)" % (i, core.to_coq(muts[i])) for i in shards[k]))
        v.append("].")
        v.append("Definition acc := Eval vm_compute in map fst (filter (fun c => accepts structs (snd c)) cases).")
        v.append("Eval vm_compute in acc.")
        ok, out = common.coq_eval("%s_%d" % (name, k), "\n".join(v) + "\n", timeout=900)
        if not ok: raise RuntimeError("coq_eval failed:\n" + out[-2000:])
        r = common.parse_bad_ids(out)
        if r is None: raise RuntimeError("unparsable:\n" + out[-1000:])
        return r
    for r in common.pmap(one, range(len(shards)), workers=min(8, max(1, len(shards)))):
        acc.update(r)
    return acc

def main(run):
    work = Work()
    quick = run.tier == "quick"
    nbase = 40 if quick else 600
    per = 2 if quick else 4
    ok = run.proof("Props/C03.v", extra_targets=["Core/Typing.vo", "Core/Sem.vo"])
    bases = []
    for i in range(nbase):
        g = core.Gen(run.rng, max_stmts=18, max_depth=3)
        bases.append(g.program())
    base_res = common.batch_typecheck_sources([core.to_ferret(p) for p in bases], work, "b")
    muts, meta = [], []
    for bi, p in enumerate(bases):
        if not base_res[bi]["ok"]:
            run.count("base-rejected-by-compiler")   # reported by C01, not here
            continue
        for cls in CLASSES:
            for _ in range(per if cls in ("mixed-operands", "implicit-narrowing", "arg-type", "struct-mistyped-field", "redeclared-param") else 1):
                r = inject(p, cls, run.rng)
                if r is None:
                    run.count("n/a:" + cls); continue
                m, ctx = r
                muts.append(m); meta.append((cls, ctx, bi))
    ref_accepts = reference_rejects("c03", muts)
    srcs = [core.to_ferret(m) for m in muts]
    res = common.batch_typecheck_sources(srcs, work, "m")
    matrix = {}
    for i, (m, (cls, ctx, bi)) in enumerate(zip(muts, meta)):
        cell = "%s @ %s" % (cls, "/".join(ctx[-3:]))
        matrix[cell] = matrix.get(cell, 0) + 1
        run.count("class:" + cls)
        run.case(srcs[i], True, {"class": cls, "context": "/".join(ctx), "program": srcs[i]} if i < 3 else None)
        if i in ref_accepts:
            raise RuntimeError("mutant of class %s accepted by the reference checker (injection bug):\n%s" % (cls, srcs[i]))
        r = res[i]
        key = "mutant:%s:%s" % (cls, hashlib.sha256(srcs[i].encode()).hexdigest()[:12])
        if r["panic"]:
            run.violation(key, "compiler crashed instead of rejecting an ill-typed program (class %s)" % cls,
                          {"class": cls, "context": "/".join(ctx), "program": srcs[i], "panic": r["panic"][:1500]})
        elif r["ok"]:
            run.violation(key, "ill-typed program accepted (class %s, context %s)" % (cls, "/".join(ctx[-3:])),
                          {"class": cls, "context": "/".join(ctx), "program": srcs[i], "base_program": core.to_ferret(bases[bi]),
                           "expected": "error diagnostic, no executable", "observed": "accepted by the type checker"})
        elif "error" not in r["out"]:
            run.violation(key, "rejected without an error diagnostic", {"program": srcs[i], "output": r["out"][:800]})
    # templates for the catalogue entries outside FerretCore (exploration)
    tp = template_programs()
    good = common.batch_typecheck_sources([t[2] for t in tp], work, "tg")
    bad = common.batch_typecheck_sources([t[3] for t in tp], work, "tb")
    for (cls, cname, gsrc, msrc), g, b in zip(tp, good, bad):
        run.case(msrc, True)
        run.count("template:" + cls)
        if not g["ok"]:
            run.count("template-context-unusable:" + cname)   # the well-typed control does not compile: context not usable
            continue
        key = "template:%s:%s" % (cls, cname)
        if b["panic"]:
            run.violation(key, "compiler crashed on ill-typed template %s in %s" % (cls, cname), {"program": msrc, "panic": b["panic"][:1500]})
        elif b["ok"]:
            run.violation(key, "ill-typed program accepted (class %s in context %s)" % (cls, cname),
                          {"class": cls, "context": cname, "program": msrc, "well_typed_control": gsrc})
    # no artifact after rejection: a sample through the real CLI with -o
    sample = run.rng.sample(range(len(muts)), min(12 if quick else 60, len(muts))) if muts else []
    def cli(i):
        d = work.sub("cli%d" % i)
        f = os.path.join(d, "main.fer"); open(f, "w").write(srcs[i])
        exe = os.path.join(d, "prog")
        rc, o, e = common.ferret(["-o", exe, f], cwd=d)
        return i, rc, os.path.exists(exe)
    for i, rc, exists in common.pmap(cli, sample, workers=4):
        if rc == 0 or exists:
            run.violation("artifact:%s" % hashlib.sha256(srcs[i].encode()).hexdigest()[:12],
                          "`ferret -o` on an ill-typed program: exit status %d, executable %s" % (rc, "left behind" if exists else "absent"),
                          {"program": srcs[i]})
    run.extra["class_x_context_matrix"] = matrix
    run.extra["cells"] = len(matrix)
    run.rule = ("well-typed generated base programs x rule class x random applicable site (expression / statement position in function, loop, "
                "branch, argument, ...); every mutant is first confirmed ill-typed by the reference checker inside Coq; distinct = distinct "
                "mutant source; plus fixed templates for catalogue classes outside FerretCore planted in 6 contexts (exploration only)")
    run.assumptions = ["reference typing is stricter than Ferret on implicit widening; mutants only use pairs where the target cannot hold every source value",
                       "template classes (optional, struct fields, array initialisers, results, floats) are not covered by the Coq reference"]
    if not ok:
        where, log = run.proof_failure
        run.violation("proof:C03:" + where, "Props/C03 no longer checks (%s)" % where, {"where": where, "log": log}, no_input=True)

def replay(run, path):
    print(open(path).read())
    return 0
