"""C13 — the compiler is total: never crashes or hangs, reports failure faithfully.

 (A) proved part  : Gallina port of the lexer main loop + Position.Advance (Models/LexerTot.v) and of the exit-status
                    glue (Models/ExitStatus.v); operator table / keyword list / return sites are REGENERATED from the
                    working tree into coq/gen/Gen_C13.v, Props/C13.v is re-checked against them; correspondence of the
                    lexer model with the real lexer (hook `lexer`) on generated and arbitrary byte strings.
 (B) explored part: seeded malformed stream through the in-process driver (hook `batch`) and a sample through the real
                    CLI with a spec-side oracle (no crash, bounded time, success <=> no error diagnostic, a located error
                    when failing, no artifact after failure).  Exploration, not proof.
"""
import os, re, json, time, subprocess, hashlib, shutil, threading
import common
from common import Work

HERE = os.path.dirname(os.path.abspath(__file__))

# ------------------------------------------------------------------------------------------------ seeds

SEEDS_INLINE = [
    'import "std/io";\n\nfn add(a: i32, b: i32) -> i32 {\n    return a + b;\n}\n\nfn main() {\n    let x := 3;\n    let y: i32 = 4;\n    let s := add(x, y);\n    if s > 5 {\n        io::Println(s);\n    } else {\n        io::Println(0);\n    }\n}\n',
    'import "std/io";\n\ntype Point struct {\n    .x: i32,\n    .y: i32\n};\n\nfn (p: Point) sum() -> i32 {\n    return p.x + p.y;\n}\n\nfn main() {\n    let p := { .x = 1, .y = 2 } as Point;\n    let a: [3]i32 = [1, 2, 3];\n    let d: []i32 = [4, 5];\n    io::Println(p.sum() + a[1] + d[0]);\n}\n',
    'import "std/io";\n\ntype Color enum { Red, Green, Blue };\n\nfn name(c: Color) -> str {\n    match c {\n        Color::Red => { return "r"; }\n        Color::Green => { return "g"; }\n        _ => { return "b"; }\n    }\n}\n\nfn main() {\n    let i := 0;\n    while i < 3 {\n        i = i + 1;\n    }\n    for j in 0..3 {\n        io::Println(j);\n    }\n    io::Println(name(Color::Red));\n}\n',
    'import "std/io";\n\nfn div(a: i32, b: i32) -> str ! i32 {\n    if b == 0 {\n        return "zero"!;\n    }\n    return a / b;\n}\n\nfn main() {\n    let m := { "a" => 1, "b" => 2 } as map[str]i32;\n    let v: i32? = m["a"];\n    let w := v ?? 7;\n    let r := div(4, 2) catch -1;\n    let f := fn(q: i32) -> i32 { return q * w; };\n    io::Println(f(r));\n}\n',
    'type Shape interface {\n    area() -> i32\n};\n\ntype Sq struct { .s: i32 };\n\nfn (q: Sq) area() -> i32 { return q.s * q.s; }\n\nfn main() {\n    const K: i32 = 10;\n    let g := 2;\n    let q: Sq = { .s = K };\n    let s: Shape = q;\n    let r: &i32 = &g;\n    let b := \'a\';\n    let t := 0x1F + 1_000 - g;\n}\n',
]

POOL = [b";", b",", b"(", b")", b"{", b"}", b"[", b"]", b":", b"::", b":=", b"=", b"=>", b"->", b".", b"..", b"...", b"?", b"??",
        b"!", b"&", b"&'", b"*", b"-", b"5", b"0x", b"1.5e", b'"s"', b'"', b"'a'", b"'", b"x", b"fn", b"let", b"const", b"type",
        b"struct", b"enum", b"interface", b"match", b"if", b"else", b"for", b"while", b"in", b"return", b"import", b"as", b"catch",
        b"map", b"is", b"union", b"break", b"continue", b"priv", b"i32", b"str", b"/*", b"*/", b"//", b"@", b"#", b"$", b"\\", b"`"]

IMPORT_MUTANTS = [
    b"import 5;\n", b"let x := 1; import 5;\n", b"import ;\n", b"import\n", b'import "', b'import "";\n', b'import "std/io"\n',
    b'import "std/nope";\n', b'import "nonexistent/x";\n', b'import "std/io" as;\n', b'import "std/io" as 5;\n',
    b'import "std/io" as io; import "std/io" as io;\n', b'import "std/io"; import "std/io";\n', b"import x;\n",
    b'import "../x";\n', b'import "/etc/passwd";\n', b'import "std/io" as a; import "std/math" as a;\n', b'import import;\n',
    b'import "a" "b";\n', b"import 'a';\n", b'import "std/io/";\n', b'import "std//io";\n', b'import "\\x00";\n', b'import "."; \n',
    b'import "PROJ/main";\n', b'import "PROJ/lib";\n', b'import "PROJ/";\n', b'import "PROJ";\n', b'import fn;\n', b'import "std/io" as fn;\n',
]

# deterministic family: everything on ONE line, so that diagnostics with two labels (primary + secondary) get both labels on
# the same source line with nested / overlapping / adjacent spans (function literals, closures, nested blocks with missing
# returns, unreachable code, type mismatches inside literals, redeclarations, duplicate members, borrow conflicts)
ONE_LINERS = [
    b'import "std/io"; fn main() { let pick := fn(a: i32) -> i32 { if a > 0 { return 1; } else { io::Println(a); } }; io::Println(pick(1)); }',
    b'fn main() { let f := fn(a: i32) -> i32 { let b := a; }; }',
    b'fn main() { let f := fn(a: i32) -> i32 { if a > 0 { return 1; } }; }',
    b'fn main() { let f := fn(a: i32) -> i32 { let g := fn(b: i32) -> i32 { if b > 0 { return b; } else { } }; return g(a); }; }',
    b'fn main() { let f := fn(a: i32) -> i32 { while a > 0 { return 1; } }; }',
    b'fn main() { let f := fn(a: i32) -> i32 { for i in 0..a { return i; } }; }',
    b'type C enum { R, G }; fn main() { let f := fn(c: C) -> i32 { match c { C::R => { return 1; } C::G => { } } }; }',
    b'fn main() { let f := fn() -> i32 { return 1; let x := 2; }; }',
    b'fn main() { let f := fn(a: i32) -> i32 { return "s"; }; let g := fn(a: i32) -> str { return a; }; }',
    b'fn main() { let f := fn(a: i32) -> i32 { if a > 0 { return 1; } else { return "no"; } }; }',
    b'fn g(a: i32) -> i32 { if a > 0 { return 1; } else { } } fn main() { }',
    b'fn g(a: i32) -> i32 { if a > 0 { return 1; } else if a < 0 { return 2; } } fn main() { let x := g(1); }',
    b'fn main() { let a := 1; let a := 2; }',
    b'fn f(a: i32, a: i32) { } fn main() { }',
    b'import "std/io" as a; import "std/math" as a; fn main() { }',
    b'fn f() { } fn f() { } fn main() { }',
    b'type T struct { .x: i32 }; type T struct { .y: i32 }; fn main() { }',
    b'type P struct { .x: i32, .x: i32 }; fn main() { }',
    b'type E enum { A, A }; fn main() { }',
    b'type T struct { .x: i32 }; fn (t: T) m() { } fn (t: T) m() { } fn main() { }',
    b"fn main() { let a := 1; let r: &'i32 = &'a; let s: &'i32 = &'a; let t := r; }",
    b'fn main() { const k := 1; k = 2; let v := 1; v = "s"; }',
    b'fn f(a: i32) { } fn main() { f("s"); f(1, 2); f(); }',
    b'fn main() { return 1; }',
    b'fn d(a: i32) -> str ! i32 { return a; } fn main() { let r := d(1) catch e { }; let q := d(2); }',
    b'fn main() { let f := fn(a: i32) -> i32 { let h := fn() -> i32 { }; return h(); }; let z: str = f(1); }',
    b'type S interface { a() -> i32 }; type Q struct { .s: i32 }; fn main() { let q: Q = { .s = 1 }; let s: S = q; }',
    b'\t\tfn main() { let f := fn(a: i32) -> i32 { if a > 0 { return 1; } else { } }; }',
]

def join_one_line(b):
    """the same program on one line: line comments dropped, newlines replaced by spaces (multi-label diagnostics collapse)."""
    b = re.sub(rb"//[^\n]*", b"", b)
    return re.sub(rb"\s*\r?\n\s*", b" ", b).strip() + b"\n"

def load_seeds():
    seeds = [s.encode() for s in SEEDS_INLINE]
    d = os.path.join(common.REPO, "smoke_test")
    if os.path.isdir(d):
        for fn in sorted(os.listdir(d)):
            p = os.path.join(d, fn)
            if fn.endswith(".fer") and os.path.isfile(p) and os.path.getsize(p) < 6000:
                seeds.append(open(p, "rb").read())
    return seeds

# ------------------------------------------------------------------------------------------------ lexer hook

def run_lexer_hook(inputs, timeout=60, max_restarts=3, mem_gib=1.5):
    """inputs: list of bytes. Returns list of dict(t, e, n, p).  The hook handles the inputs sequentially; when the process
    dies or exceeds `timeout` the input it was working on is marked and the rest is restarted, at most max_restarts times
    (after that the remaining inputs are marked `not run`), so a lexer that hangs cannot stall the check."""
    hook = os.environ.get("C13_LEXER_HOOK") or common.build_hook("lexer")
    res = [None] * len(inputs)
    start = 0; restarts = 0
    while start < len(inputs):
        if restarts > max_restarts:
            for k in range(start, len(inputs)):
                res[k] = {"t": [], "e": [], "n": 0, "p": "process died: not run (the lexer hook died or hung %d times before)" % restarts}
            break
        inp = b"".join(x.hex().encode() + b"\n" for x in inputs[start:])
        try:
            p = subprocess.run([hook], input=inp, stdout=subprocess.PIPE, stderr=subprocess.PIPE, timeout=timeout,
                               preexec_fn=common.limit_mem(mem_gib))
            out, err = p.stdout, p.stderr.decode("utf8", "replace")
        except subprocess.TimeoutExpired as e:
            out, err = e.stdout or b"", "TIMEOUT"
        k = 0
        for ln in out.split(b"\n"):
            if not ln.strip():
                continue
            try:
                res[start + k] = json.loads(ln.decode("utf8", "replace"))
            except ValueError:
                break
            k += 1
            if start + k >= len(inputs):
                break
        if start + k < len(inputs):
            res[start + k] = {"t": [], "e": [], "n": 0, "p": "process died: " + err[:700] + " ... " + err[-700:]}
            k += 1; restarts += 1
        start += k
    return res

def token_spans(src, lexres):
    """byte spans [(si, ei)] of the real lexer's tokens (clamped to the input; EOF excluded)."""
    sp = []
    for t in lexres["t"][:-1]:
        si, ei = t[4], t[7]
        if si < ei <= len(src):
            sp.append((si, ei))
    return sp

# ------------------------------------------------------------------------------------------------ malformed stream

def mutate(rng, src, spans):
    """one malformed variant of src (bytes); returns (kind, bytes)."""
    kinds = ["trunc", "del", "dup", "swap", "repl", "ins", "noise", "utf8", "delrange", "trunc_mid"]
    k = rng.choice(kinds)
    n = len(spans)
    if n < 3:
        k = "noise"
    if k == "trunc":
        i = rng.randrange(n)
        cut = spans[i][0] if rng.random() < 0.5 else spans[i][1]
        return k, src[:cut]
    if k == "trunc_mid":
        return k, src[:rng.randrange(len(src) + 1)]
    if k == "del":
        i = rng.randrange(n)
        return k, src[:spans[i][0]] + src[spans[i][1]:]
    if k == "delrange":
        i = rng.randrange(n); j = min(n - 1, i + rng.randrange(1, 6))
        return k, src[:spans[i][0]] + src[spans[j][1]:]
    if k == "dup":
        i = rng.randrange(n)
        t = src[spans[i][0]:spans[i][1]]
        return k, src[:spans[i][1]] + b" " + t + src[spans[i][1]:]
    if k == "swap":
        i = rng.randrange(n - 1)
        a, b = spans[i], spans[i + 1]
        return k, src[:a[0]] + src[b[0]:b[1]] + src[a[1]:b[0]] + src[a[0]:a[1]] + src[b[1]:]
    if k == "repl":
        i = rng.randrange(n)
        return k, src[:spans[i][0]] + rng.choice(POOL) + src[spans[i][1]:]
    if k == "ins":
        i = rng.randrange(n)
        return k, src[:spans[i][0]] + rng.choice(POOL) + b" " + src[spans[i][0]:]
    if k == "noise":
        b = bytearray(src)
        for _ in range(rng.randrange(1, 4)):
            if not b:
                b.append(rng.randrange(256)); continue
            i = rng.randrange(len(b))
            r = rng.random()
            if r < 0.4: b[i] = rng.randrange(256)
            elif r < 0.7: b.insert(i, rng.randrange(256))
            else: del b[i]
        return k, bytes(b)
    if k == "utf8":
        bad = rng.choice([b"\xff", b"\xc3", b"\xe2\x82", b"\xf0\x9f\x98", b"\xc0\x80", b"\xed\xa0\x80", b"\xf4\x90\x80\x80",
                          "é".encode(), "€".encode(), "😀".encode(), b"\xef\xbf\xbd", b"\x80", b"\x00", b"\x0c", b"\r"])
        i = rng.randrange(len(src) + 1)
        return k, src[:i] + bad + src[i:]
    raise AssertionError(k)

def random_bytes(rng):
    n = rng.choice([0, 1, 2, 3, 5, 8, 16, 40, 100])
    alpha = rng.choice(["any", "ascii", "punct", "tok"])
    if alpha == "any":
        return bytes(rng.randrange(256) for _ in range(n))
    if alpha == "ascii":
        return bytes(rng.randrange(128) for _ in range(n))
    if alpha == "punct":
        return bytes(rng.choice(b"(){}[];:,.=<>!&|+-*/%^?'\"\\ \n\t") for _ in range(n))
    return b" ".join(rng.choice(POOL) for _ in range(n))

def project_layouts(rng, seeds, count):
    """small multi-file layouts: list of (kind, {relpath: bytes}) with entry main.fer; PROJ is replaced by the directory name."""
    libs_ok = [b"fn Add(a: i32, b: i32) -> i32 { return a + b; }\n", b"const K: i32 = 3;\nfn Get() -> i32 { return K; }\n",
               b"type P struct { .X: i32 };\nfn Mk() -> P { return P{ .X = 1 }; }\n"]
    libs_bad = [b"", b"fn Add(a: i32, b: i32) -> i32 { return a + ; }\n", b"fn Add(", b"\xff\xfe", b"import 5;\n", b"fn add() {}\n",
                b'import "PROJ/main";\nfn Add(a: i32, b: i32) -> i32 { return a + b; }\n', b'import "PROJ/lib";\nfn Add() {}\n',
                b'import "PROJ/other";\nfn Add(a: i32, b: i32) -> i32 { return a; }\n', b"fn Add(a: i32, b: i32) -> i32 { return a + b; }\nfn Add() {}\n",
                b"type T struct { .x: T };\n", b"let x := y;\n", b"}}}}", b"fn main() {}\n"]
    mains = [b'import "PROJ/lib";\nfn main() { let r := lib::Add(1, 2); }\n', b'import "PROJ/lib" as l;\nfn main() { let r := l::Add(1, 2); }\n',
             b'import "PROJ/lib";\nimport "PROJ/other";\nfn main() { let r := lib::Add(1, 2); }\n',
             b'import "PROJ/lib";\nfn main() { let r := lib::missing(1); }\n', b'import "PROJ/sub/deep";\nfn main() { }\n',
             b'import "PROJ/lib"\nfn main() { }\n', b'fn main() { }\nimport "PROJ/lib";\n', b'import "PROJ/lib";\nimport "PROJ/lib";\nfn main() { }\n',
             b'import "PROJ/LIB";\nfn main() { }\n', b'import "PROJ/lib.fer";\nfn main() { }\n']
    out = []
    for _ in range(count):
        files = {"main.fer": rng.choice(mains)}
        r = rng.random()
        if r < 0.3:
            files["lib.fer"] = rng.choice(libs_ok)
        elif r < 0.85:
            files["lib.fer"] = rng.choice(libs_bad)
        # else: missing
        if rng.random() < 0.4:
            files["other.fer"] = rng.choice(libs_ok + libs_bad)
        if rng.random() < 0.2:
            files["sub/deep.fer"] = rng.choice(libs_ok + libs_bad)
        if rng.random() < 0.15:
            files["lib"] = None    # a directory named like the module
        out.append(("layout", files))
    return out

def semantic_family(rng, n):
    """syntactically well-formed programs with SEMANTIC errors whose detection walks the control-flow graph or the scopes: value-returning
    functions / methods / function literals that can leave a loop (or a match arm, or an if chain) and fall off their end, unreachable code
    after exits inside loops, wrongly typed returns, undeclared names and borrow conflicts inside loops (seed C13e: the backward walk that
    labels the branches missing a return did not terminate on a loop).  Oracle: the generic one (terminates, no crash, exit 1, located)."""
    loops = ["while i < n { i = i + 1; }", "while true { if i > 3 { break; } i = i + 1; }", "for j in 0..n { i = i + j; }",
             "while i < n { while i < 2 { i = i + 1; } i = i + 1; }", "for j in 0..n { if j == 2 { continue; } i = i + j; }",
             "while i < n { if i == 1 { return 7; } i = i + 1; }", "for j in 0..=n:2 { for k in 0..j { i = i + k; } }",
             "while i < n { match i { 1 => { i = i + 2; } _ => { i = i + 1; } } }"]
    def wrap(l):
        c = rng.randrange(7)
        if c == 0: return l
        if c == 1: return "if n > 1 { %s } else { return 1; }" % l
        if c == 2: return "match n { 1 => { %s } 2 => { return 5; } _ => { return 2; } }" % l
        if c == 3: return "{ %s }" % l
        if c == 4: return "%s %s" % (l, rng.choice(loops))
        if c == 5: return "if n > 1 { return 3; } else if n > 0 { %s } else { return 4; }" % l
        return "if n > 1 { %s }" % l
    tails = ["", "", "", "io::Println(i);", "let z: bool = i;", "return true;", "i = undefined_name;", "if i > 2 { return i; }",
             "return i; io::Println(i);", "let r: &'i32 = &'i; let q: &'i32 = &'i; io::Println(r, q);"]
    out = []
    for _ in range(n):
        body = "let i := 0; %s %s" % (wrap(wrap(rng.choice(loops))), rng.choice(tails))
        c = rng.randrange(4)
        if c == 0: src = "fn f(n: i32) -> i32 { %s }\nfn main() { io::Println(f(3)); }\n" % body
        elif c == 1: src = "type T struct { .V: i32 };\nfn (t: T) m(n: i32) -> i32 { %s }\nfn main() { let t := { .V = 1 } as T; io::Println(t.m(3)); }\n" % body
        elif c == 2: src = "fn main() { let g := fn(n: i32) -> i32 { %s }; io::Println(g(3)); }\n" % body
        else: src = "fn h(a: i32) -> str ! i32 { if a == 0 { return \"z\"!; } return a; }\nfn f(n: i32) -> i32 { let v := h(n) catch e { %s }; return v; }\nfn main() { io::Println(f(3)); }\n" % body
        out.append(("semantic", {"main.fer": ('import "std/io";\n' + src).encode()}))
    return out

def gen_stream(rng, seeds, lexed, n_mut, n_rand, n_imp, n_lay):
    """returns list of (kind, files dict)"""
    cases = []
    for _ in range(n_mut):
        i = rng.randrange(len(seeds))
        k, b = mutate(rng, seeds[i], lexed[i])
        if rng.random() < 0.15:      # second-order mutant
            k2, b = mutate(rng, b, [s for s in lexed[i] if s[1] <= len(b)])
            k = k + "+" + k2
        cases.append((k, {"main.fer": b}))
    for _ in range(n_rand):
        cases.append(("random", {"main.fer": random_bytes(rng)}))
    # every third malformed program also "joined onto one line", every seed too, plus the deterministic one-line family
    for k, files in list(cases[:n_mut:3]):
        cases.append(("joined:" + k.split("+")[0], {"main.fer": join_one_line(files["main.fer"])}))
    for sd in seeds:
        cases.append(("joined:seed", {"main.fer": join_one_line(sd)}))
    for ol in ONE_LINERS:
        cases.append(("oneline", {"main.fer": ol + b"\n"}))
    for j in range(n_imp):
        m = IMPORT_MUTANTS[j % len(IMPORT_MUTANTS)] if j < len(IMPORT_MUTANTS) else rng.choice(IMPORT_MUTANTS)
        tail = rng.choice([b"", b"fn main() { }\n", seeds[0]])
        head = rng.choice([b"", b"", b"fn f() { }\n"])
        cases.append(("import", {"main.fer": head + m + tail}))
    cases += project_layouts(rng, seeds, n_lay)
    return cases

# ------------------------------------------------------------------------------------------------ oracle

ERR_LINE = re.compile(r"^\s*error(\[[A-Za-z0-9_]+\])?:", re.M)
LOC_LINE = re.compile(r"-->\s+(\S+?):(\d+):(\d+)")
FAILED_SUMMARY = re.compile(r"Compilation failed with (\d+) error")

def frame_key(panic_text):
    """top non-runtime frame's function name of a Go panic / fatal trace."""
    for m in re.finditer(r"^([A-Za-z0-9_./\-]+(?:\.\(\*?[A-Za-z0-9_]+\))?(?:\.[A-Za-z0-9_]+)+)\(", panic_text, re.M):
        fn = m.group(1)
        if fn.startswith("runtime.") or fn.startswith("runtime/") or fn.startswith("main.one") or fn.startswith("panic"):
            continue
        if fn.startswith("compiler/") or fn.startswith("main."):
            fn = re.sub(r"\.func\d+(\.\d+)*$", "", fn)
            return fn
    if "stack overflow" in panic_text or "goroutine stack exceeds" in panic_text:
        return "stack-overflow"
    return "unknown-frame"

def line_metrics(b):
    lines = b.split(b"\n")
    return lines

def loc_inside(files_abs, path, line, col):
    """is path:line:col inside one of the input files? (line in 1..#lines where a trailing newline opens a last empty line;
    col in 1..(bytes of that line + tab expansion)+1)"""
    p = os.path.normpath(path)
    if p not in files_abs:
        return False
    lines = files_abs[p].split(b"\n")
    if not (1 <= line <= len(lines)):
        return False
    ln = lines[line - 1]
    maxcol = 1 + len(ln) + 3 * ln.count(b"\t")
    return 1 <= col <= maxcol + 1

def err_tag(text):
    """first two words of the first error message, literals / numbers / paths masked (used in canonical keys)."""
    first = ERR_LINE.search(text)
    msg = text[first.end():].splitlines()[0].strip() if first else "?"
    return " ".join(re.sub(r"'[^']*'|\"[^\"]*\"|\d+|/\S+", "_", msg).split()[:2])

def artifact_bads(ok, mode, out, text):
    """no artifact after a failed compilation / an artifact after a successful one.  The key names the target and the
    first error, so that a leftover of another back end or after another kind of failure is a different finding."""
    if mode == "t":
        return []
    exists = os.path.exists(out)
    if not ok and exists:
        return [("artifact:left-after-failure:%s:%s" % (mode, err_tag(text)),
                 "output artifact %s exists after a failed compilation (first error: %s)" % (os.path.basename(out), err_tag(text)))]
    if ok and not exists:
        return [("status:success-without-artifact", "the compilation succeeded but no output artifact was produced")]
    return []

def check_output(ok, panic, text, files_abs, libs_dir=None):
    """spec-side oracle on one compile. Returns list of (key, what)."""
    bad = []
    if panic:
        if is_hang(panic):
            if "out of memory" in panic or "cannot allocate" in panic or "pthread_create failed" in panic:
                return [("hang", "the compiler allocates without bound: it ran into the %.1f GiB address-space cap (%s)" %
                         (STREAM_MEM_GIB, "top frame " + frame_key(panic)))]
            return [("hang", "the compiler did not terminate: " + panic.splitlines()[0][:120])]
        if panic.startswith("process died"):
            return [("crash:" + frame_key(panic), "compiler process died (fatal error / exit inside the library): " + panic[:200])]
        return [("crash:" + frame_key(panic), "internal crash (Go panic): " + panic.splitlines()[0][:160])]
    nerr = len(ERR_LINE.findall(text))
    m = FAILED_SUMMARY.search(text)
    if ok and (nerr > 0 or m):
        bad.append(("status:success-with-errors", "Success=true although %d error diagnostic(s) were printed" % max(nerr, 1)))
    if not ok and nerr == 0:
        bad.append(("status:failure-without-error", "Success=false but no error diagnostic was printed"))
    if m and int(m.group(1)) != nerr and nerr > 0 and int(m.group(1)) > 0:
        pass   # the summary counts diagnostics the emitter may render on several lines; not part of the property
    locs = [(mm.group(1), int(mm.group(2)), int(mm.group(3))) for mm in LOC_LINE.finditer(text)]
    inside = 0
    for (p, l, c) in locs:
        if loc_inside(files_abs, p, l, c):
            inside += 1
        elif libs_dir and os.path.normpath(p).startswith(os.path.normpath(libs_dir)):
            inside += 1      # a location inside a bundled library source is inside an input of the compilation
        else:
            bad.append(("loc:outside", "diagnostic location %s:%d:%d lies outside every input file" % (os.path.basename(p), l, c)))
            break
    if not ok and nerr > 0 and inside == 0:
        msg = err_tag(text)
        bad.append(("noloc:" + msg, "failed without any error located inside an input file (first error: %s)" % msg))
    return bad

def write_case(work, idx, files):
    d = work.sub("p%d" % idx)
    proj = os.path.basename(d).encode()
    files_abs = {}
    for rel, content in files.items():
        p = os.path.join(d, rel)
        if content is None:
            os.makedirs(p, exist_ok=True)
            continue
        os.makedirs(os.path.dirname(p), exist_ok=True)
        content = content.replace(b"PROJ", proj)
        open(p, "wb").write(content)
        files_abs[os.path.normpath(p)] = content
    return d, files_abs

def canon_case(files):
    return hashlib.sha256(repr(sorted((k, v) for k, v in files.items())).encode()).hexdigest()[:16]

def replay_dict(kind, files, mode, extra=None):
    d = {"kind": kind, "mode": mode,
         "files": {k: (None if v is None else {"hex": v.hex(), "text": v.decode("utf8", "replace")[:2000]}) for k, v in files.items()},
         "how": "write the files into an empty directory named p0 (PROJ in imports = directory name), run `ferret %s main.fer`" %
                {"t": "-t", "native": "-o out", "wasm": "-target wasm -o out.wasm"}.get(mode, "-t")}
    if extra:
        d.update(extra)
    return d

# ------------------------------------------------------------------------------------------------ in-process batch runner
# (own runner instead of common.batch_compile: keeps line structure of the HTML log, matches answers by id, splits the
#  hook's stdout on \n only — the compiler echoes bytes such as U+0085 that str.splitlines would split on)

_TAG = re.compile(r"<[^>]+>")

def html_to_text(s):
    import html
    s = re.sub(r"<br\s*/?>", "\n", s or "")
    return html.unescape(_TAG.sub("", s)).replace("\xa0", " ")

REQ_TIMEOUT_MS = 8000        # "terminates in bounded time": per-compile limit inside the in-process driver
STREAM_MEM_GIB = 3.0         # address-space cap of a driver process: a runaway allocation dies within a second or two

def is_fatal(r):
    """crash / hang / death of the driver — the outcomes the fail-fast counter looks at."""
    return bool(r.get("panic"))

def is_hang(panic):
    return bool(panic) and (panic.startswith("timeout:") or "TIMEOUT" in panic[:200] or "out of memory" in panic or
                            "cannot allocate memory" in panic or "pthread_create failed" in panic)

class Budget:
    """shared by all slices: wall-clock deadline of the tie stage and the fail-fast counter of crash/hang answers."""
    def __init__(self, deadline=None, max_fatal=None, ignore=None):
        self.deadline = deadline; self.max_fatal = max_fatal; self.fatal = 0
        self.ignore = ignore or (lambda r: False)      # crash sites that are open known findings do not count
        self.lock = threading.Lock(); self.why = None
    def note(self, r):
        if is_fatal(r) and not self.ignore(r):
            with self.lock:
                self.fatal += 1
    def remaining(self):
        return None if self.deadline is None else self.deadline - time.time()
    def stop(self):
        if self.max_fatal is not None and self.fatal >= self.max_fatal:
            self.why = self.why or "fail-fast: %d crash/hang results" % self.fatal
            return True
        if self.deadline is not None and time.time() >= self.deadline:
            self.why = self.why or "wall-time ceiling of the tie stage reached"
            return True
        return False

def run_batch(reqs, nproc=None, timeout=120, hook=None, libs=None, req_timeout_ms=REQ_TIMEOUT_MS, mem_gib=STREAM_MEM_GIB, budget=None):
    """reqs: list of dict(id, file, mode, out?). Returns {id: dict(ok, panic, out)} for the requests that were run.
    Every request carries timeout_ms: a compile still running after that time is answered `timeout: ...` by the hook, which
    then exits with status 3 (the runaway goroutine cannot be stopped) and the slice restarts with the remaining requests.
    A request during which the process died otherwise (Go fatal error, out of memory under the address-space cap, os.Exit in
    library code, stack overflow) gets panic='process died ...'.  With a Budget the slices stop early (requests not run are
    absent from the result) once the deadline has passed or enough crash/hang answers were seen."""
    hook = hook or os.environ.get("C13_BATCH_HOOK") or common.build_hook("batch")
    libs = libs or common.impl().libs
    nproc = nproc or min(common.NCPU, 8, max(1, len(reqs) // 8))
    reqs = [dict(r, timeout_ms=r.get("timeout_ms", req_timeout_ms)) for r in reqs]
    slices = [reqs[i::nproc] for i in range(nproc)]
    env = dict(os.environ, FERRET_LIBS_PATH=libs, NO_COLOR="1")
    def runslice(sl):
        res = {}
        todo = list(sl)
        while todo:
            if budget is not None and budget.stop():
                break
            # feed the process in chunks so that the fail-fast counter and the deadline are looked at regularly
            chunk = todo[:64]
            tmo = timeout
            if budget is not None and budget.remaining() is not None:
                tmo = max(5, min(timeout, budget.remaining() + 5))
            inp = "".join(json.dumps(r) + "\n" for r in chunk).encode()
            try:
                p = subprocess.run([hook], input=inp, stdout=subprocess.PIPE, stderr=subprocess.PIPE, env=env, timeout=tmo,
                                   preexec_fn=common.limit_mem(mem_gib))
                out = p.stdout; err = p.stderr.decode("utf8", "replace"); rc = p.returncode
            except subprocess.TimeoutExpired as e:
                out = e.stdout or b""; err = "TIMEOUT"; rc = -9
            answered = []
            for line in out.split(b"\n"):
                if not line.strip():
                    continue
                try:
                    j = json.loads(line.decode("utf8", "replace"))
                except ValueError:
                    continue
                res[j["id"]] = dict(ok=j["ok"], panic=j["panic"], out=html_to_text(j["out"]))
                answered.append(j["id"])
                if budget is not None:
                    budget.note(res[j["id"]])
            rest = [r for r in chunk if r["id"] not in res]
            exited_on_timeout = rc == 3 and answered and (res[answered[-1]]["panic"] or "").startswith("timeout:")
            if rest and not exited_on_timeout:
                r = rest[0]     # requests are handled in order: the first unanswered one is where the process died
                res[r["id"]] = dict(ok=False, panic="process died rc=%s: %s ... %s" % (rc, err[:1500], err[-1500:]), out="")
                if budget is not None:
                    budget.note(res[r["id"]])
                rest = rest[1:]
            todo = rest + todo[len(chunk):]
        return res
    allres = {}
    for r in common.pmap(runslice, slices, workers=nproc):
        allres.update(r)
    return allres

# ------------------------------------------------------------------------------------------------ translator -> gen/Gen_C13.v

class PortOutdated(Exception):
    pass

FIXED_PATTERNS = [(r"\s+", "skipHandler"), (r"//[^\n\r]*", "commentHandler"), (r"(?s)/\*.*?\*/", "commentHandler"),
                  (r'"[^"]*"', "stringHandler"), (r"'(?:\\x[0-9a-fA-F]{2}|\\.|[\x00-\x7F])'", "byteHandler"),
                  ("numeric.NumberPattern", "numberHandler"), (r"[a-zA-Z_][a-zA-Z0-9_]*", "identifierHandler")]
NUMBER_PATTERN = (r"-?(?:0[xX][0-9a-fA-F](?:[0-9a-fA-F]|_[0-9a-fA-F])*|0[oO][0-7](?:[0-7]|_[0-7])*|0[bB][01](?:[01]|_[01])*|"
                  r"[0-9](?:[0-9]|_[0-9])*(?:\.[0-9](?:[0-9]|_[0-9])*)?(?:[eE][+-]?[0-9](?:[0-9]|_[0-9])*)?)")

def _go_consts(text, typ=None):
    """NAME [TYPE] = "value" | `value` | TOKEN(pkg.NAME) | concatenations of raw strings and names."""
    out = {}
    for m in re.finditer(r"^\s*([A-Za-z_]\w*)(?:\s+[A-Za-z_][\w.]*)?\s*=\s*(.+?)\s*(?://.*)?$", text, re.M):
        out[m.group(1)] = m.group(2).strip()
    return out

def _eval_concat(expr, consts, depth=0):
    if depth > 20:
        raise PortOutdated("constant recursion")
    parts = [p.strip() for p in re.split(r"\s\+\s", expr)]
    val = ""
    for p in parts:
        if (p.startswith("`") and p.endswith("`")) or (p.startswith('"') and p.endswith('"') and "\\" not in p):
            val += p[1:-1]
        elif p in consts:
            val += _eval_concat(consts[p], consts, depth + 1)
        else:
            raise PortOutdated("cannot evaluate constant expression %r" % p)
    return val

def _regex_literal(src):
    """literal byte string a `defaultHandler` regular expression stands for; fail closed on any metacharacter."""
    out = bytearray(); i = 0
    while i < len(src):
        c = src[i]
        if c == "\\":
            if i + 1 >= len(src) or src[i + 1].isalnum():
                raise PortOutdated("operator pattern %r is not a literal" % src)
            out += src[i + 1].encode(); i += 2
        elif c in ".^$*+?()[]{}|":
            # Go accepts a few of these unescaped as literals ( ] } ) but the table escapes them; be strict
            if c in "]}" :
                out += c.encode(); i += 1
            else:
                raise PortOutdated("operator pattern %r is not a literal" % src)
        else:
            out += c.encode(); i += 1
    return bytes(out)

def scan_lexer_tables(repo):
    tz = open(os.path.join(repo, "internal/frontend/lexer/tokenizer.go")).read()
    tz = re.sub(r"^\s*//.*$", "", tz, flags=re.M)        # commented-out table entries
    tk = open(os.path.join(repo, "internal/tokens/tokens.go")).read()
    ty = open(os.path.join(repo, "internal/types/builtins.go")).read()
    nm = open(os.path.join(repo, "internal/utils/numeric/numeric.go")).read()
    ents = re.findall(r"\{\s*regexp\.MustCompile\(\s*(`[^`]*`|\"(?:[^\"\\]|\\.)*\"|[A-Za-z_][\w.]*)\s*\)\s*,\s*([A-Za-z_]\w*(?:\([\w.]+\))?)\s*\}", tz)
    if len(ents) < 8:
        raise PortOutdated("pattern table of tokenizer.go not found (%d entries)" % len(ents))
    def unq(x):
        if x[0] == "`": return x[1:-1]
        if x[0] == '"': return json.loads(x)
        return x
    ents = [(unq(a), b) for a, b in ents]
    for i, (rx, h) in enumerate(FIXED_PATTERNS):
        if ents[i] != (rx, h):
            raise PortOutdated("pattern #%d of tokenizer.go is %r, the port was written for %r" % (i, ents[i], (rx, h)))
    nconsts = _go_consts(nm)
    if _eval_concat(nconsts.get("NumberPattern", "?"), nconsts) != NUMBER_PATTERN:
        raise PortOutdated("numeric.NumberPattern changed: %r" % _eval_concat(nconsts.get("NumberPattern", "?"), nconsts))
    tconsts = _go_consts(tk)
    yconsts = _go_consts(ty)
    def tokval(name):
        v = tconsts.get(name)
        if v is None:
            raise PortOutdated("token constant %s not found" % name)
        m = re.fullmatch(r"TOKEN\(types\.(\w+)\)", v)
        if m:
            v = yconsts.get(m.group(1))
            if v is None:
                raise PortOutdated("types.%s not found" % m.group(1))
        if not (v.startswith('"') and v.endswith('"')):
            raise PortOutdated("token constant %s = %s is not a string literal" % (name, v))
        return json.loads(v).encode()
    ops = []
    for rx, h in ents[len(FIXED_PATTERNS):]:
        m = re.fullmatch(r"defaultHandler\(tokens\.(\w+)\)", h)
        if not m:
            raise PortOutdated("unexpected handler %s after the fixed patterns" % h)
        ops.append((_regex_literal(rx), tokval(m.group(1))))
    km = re.search(r"keyWordsMap[^{]*\{(.*?)\n\}", tk, re.S)
    if not km:
        raise PortOutdated("keyWordsMap not found")
    kws = [tokval(n) for n in re.findall(r"^\s*(\w+)\s*:\s*true", km.group(1), re.M)]
    # the handlers / main loop themselves: the port is tied to them by the correspondence check, not by text
    return ops, kws

def _func_body(text, header_re):
    m = re.search(header_re, text)
    if not m:
        return None
    i = text.index("{", m.end() - 1) if text[m.end() - 1] != "{" else m.end() - 1
    depth = 0
    for j in range(i, len(text)):
        if text[j] == "{": depth += 1
        elif text[j] == "}":
            depth -= 1
            if depth == 0:
                return text[i + 1:j]
    return None

def _dominating(body, pos):
    """text of the statements that dominate position pos (closed sibling blocks skipped)."""
    out = []; depth = 0
    for k in range(pos - 1, -1, -1):
        c = body[k]
        if c == "}":
            depth += 1
        elif c == "{":
            if depth > 0:
                depth -= 1
        elif depth == 0:
            out.append(c)
    return "".join(reversed(out))

def scan_exit_sites(repo):
    cg = open(os.path.join(repo, "internal/compiler/compiler.go")).read()
    mg = open(os.path.join(repo, "main.go")).read()
    bg = open(os.path.join(repo, "internal/diagnostics/bag.go")).read()
    cx = open(os.path.join(repo, "internal/context_v2/context.go")).read()
    body = _func_body(cg, r"func Compile\(opts \*Options\) Result \{")
    if body is None:
        raise PortOutdated("func Compile not found")
    run_pos = body.find("p.Run()")
    if run_pos < 0:
        raise PortOutdated("p.Run() not found in Compile")
    run_checked = bool(re.search(r"if\s+err\s*:=\s*p\.Run\(\)\s*;\s*err\s*!=\s*nil[^{]*\{[^}]*ReportError\(", body))
    sites = []
    for m in re.finditer(r"return\s+Result\{([^}]*)\}", body):
        lit = m.group(1)
        sm = re.search(r"Success:\s*([^,}]+)", lit)
        expr = sm.group(1).strip() if sm else "<zero>"
        se = {"false": "SFalse", "<zero>": "SFalse", "!ctx.HasErrors()": "SNotHasErrors"}.get(expr, "SOther")
        dom = _dominating(body, m.start())
        sites.append(dict(expr=se, text=expr, reports="ReportError(" in dom.split("ctx := ")[-1] and "ctx := " in dom,
                          emits=bool(re.search(r"EmitDiagnostics\(\)|EmitAllToString\(\)", dom)),
                          output=bool(re.search(r'Output:\s*(fmt\.Sprintf\(\s*"[^"]+"|"[^"]+")', lit)),
                          pipeline=m.start() > run_pos, line=cg[:cg.index(body)].count("\n") + body[:m.start()].count("\n") + 1))
    if not sites:
        raise PortOutdated("no return sites in Compile")
    mb = _func_body(mg, r"func main\(\) \{")
    cpos = mb.find("compiler.Compile(") if mb else -1
    if cpos < 0:
        raise PortOutdated("compiler.Compile call not found in main.go")
    after = mb[cpos:]
    fm = re.search(r"if\s+!result\.Success\s*\{([^}]*)\}", after)
    fail_exit = 0
    if fm:
        em = re.search(r"os\.Exit\((\d+)\)", fm.group(1))
        fail_exit = int(em.group(1)) if em else 0
    other_exits = len(re.findall(r"os\.Exit\(", after)) - (1 if fm and "os.Exit(" in fm.group(1) else 0)
    prints_output = bool(fm and "result.Output" in fm.group(1))
    add = _func_body(bg, r"func \(db \*DiagnosticBag\) Add\(diag \*Diagnostic\) \{") or ""
    has = _func_body(bg, r"func \(db \*DiagnosticBag\) HasErrors\(\) bool \{") or ""
    chas = _func_body(cx, r"func \(ctx \*CompilerContext\) HasErrors\(\) bool \{") or ""
    glue = (bool(re.search(r"case Error:\s*db\.errorCount\+\+", add)) and len(re.findall(r"errorCount", add)) == 1 and
            bool(re.search(r"return db\.errorCount > 0", has)) and bool(re.search(r"return ctx\.Diagnostics\.HasErrors\(\)", chas)) and
            bool(re.search(r"Severity:\s*diagnostics\.Error", _func_body(cx, r"func \(ctx \*CompilerContext\) ReportError\([^)]*\) \{") or "")))
    return dict(sites=sites, run_checked=run_checked, fail_exit=fail_exit, other_exits=other_exits,
                prints_output=prints_output, glue=glue)

def gen_coq(repo=None):
    repo = repo or common.REPO
    ops, kws = scan_lexer_tables(repo)
    ex = scan_exit_sites(repo)
    b = lambda x: common.coq_bytes(x) if x else "(@nil Z)"
    v = ["(* generated by harness/c13.py from the working tree — do not edit *)",
         "From Coq Require Import ZArith List.", "From FV Require Import Models.LexerTot Models.ExitStatus.",
         "Import ListNotations.", "Open Scope Z_scope.",
         "Definition lex_ops : list (bytes * bytes) := ["]
    v.append(";\n".join("  (%s, %s)" % (b(l), b(t)) for l, t in ops))
    v.append("].")
    v.append("Definition lex_keywords : list bytes := [")
    v.append(";\n".join("  %s" % b(k) for k in kws))
    v.append("].")
    v.append("Definition compile_sites : list site := [")
    v.append(";\n".join("  mkSite %s %s %s %s %s" % (s["expr"], common.coq_bool(s["reports"]), common.coq_bool(s["emits"]),
                                                  common.coq_bool(s["output"] and ex["prints_output"]), common.coq_bool(s["pipeline"]))
                        for s in ex["sites"]))
    v.append("].")
    v.append("Definition compile_run_checked : bool := %s." % common.coq_bool(ex["run_checked"]))
    v.append("Definition main_fail_exit : Z := %d." % ex["fail_exit"])
    v.append("Definition main_other_exits_after_compile : Z := %d." % ex["other_exits"])
    v.append("Definition bag_glue_as_ported : bool := %s." % common.coq_bool(ex["glue"]))
    content = "\n".join(v) + "\n"
    os.makedirs(common.GEN, exist_ok=True)
    path = os.path.join(common.GEN, "Gen_C13.v")
    if not os.path.exists(path) or open(path).read() != content:
        open(path, "w").write(content)
    return ops, kws, ex

def setup():
    try:
        gen_coq()
    except PortOutdated as e:
        print("C13 setup: translator failed:", e)

# ------------------------------------------------------------------------------------------------ lexer correspondence

KIND_NAMES = {b"identifier": "k_ident", b"numeric literal": "k_number", b"string literal": "k_string",
              b"byte literal": "k_byte", b"comment": "k_comment", b"end_of_file": "k_eof"}

def _utf8_first_cp(b):
    try:
        return ord(b.decode("utf8")[0])
    except Exception:
        return -1

def map_lex_error(msg):
    """Go message bytes -> (code, arg) of Models/LexerTot.oerr; code 9 = not in the port."""
    if msg.startswith(b"unrecognized character '") and msg.endswith(b"'"):
        return 0, _utf8_first_cp(msg[len(b"unrecognized character '"):-1])
    if msg == b"incomplete hex escape sequence":
        return 1, 0
    if msg.startswith(b"unknown escape sequence '\\") and msg.endswith(b"'"):
        return 2, _utf8_first_cp(msg[len(b"unknown escape sequence '\\"):-1])
    return 9, 0

def lexer_inputs(rng, seeds, n_mut, n_rand):
    fixed = [b"", b"\n", b"\xff", b"\xc3", b"\xe2\x82", b"\xe2\x82\xac", b"\xf0\x9f\x98\x80", b"\xf0\x9f\x98", b"\xed\xa0\x80", b"\xc0\x80",
             b"\xf4\x90\x80\x80", b"\xef\xbf\xbd", b"// c\xffmt\nx", b"/* \xff\xfe */ y", b'"\xff\n\xe2" z', b"'\\\xc3\xa9' '\\\xff' '\\\n'",
             b"'''", b"'\\'", b"'\\''", b"'\\x41' '\\xZ1' '\\x' '\\q' 'ab' '' '\n'", b'"a\\n\\t\\0\\\\\\x41\\x4\\xZZ\\q\\', b'"unterminated', b'"\\x4"', b'"\\x"', b'"\\"', b'"a\\x4" "b\\xF" "\\x41\\x"',
             b"/* unterminated", b"/*/ x", b"/**/", b"/***/ */", b"//", b"// x\r\ny", b"a\tb\t\tc\n\td", b"\t\xc3\xa9x", b"x\x0cy\x0bz\x00w",
             b"-1 - 1 x-1 -0x1F -0b2 0b12 0o8 0x 0xg 1_ 1__2 1_000 1. 1.5 1.e5 1e 1e+ 1e-5 1.5E+3_0 .5 0177 -", b"0x1F_f 0XAB 0o17 0O7 0b1_0 0B1",
             b"a..b a...b a..=b a.b ..= .. ... .", b"&'a && & ' &'", b"** **= *= * ^= ^ %= % /= / += ++ + -= -- -> - => == = := :: : != ! <= < >= > ?? ? || |",
             b"let const type if else for in foreach while do match priv return break continue import as mod catch struct fn interface union is enum map",
             b"lets _x x_1 X9 __ identifier end_of_file", b"@#$`~\\", b"\x7f\x80\xbf\xc0\xc1\xf5\xfe", b"fn main() {\xfd\n    let ", b" \t\r\n\x0c ",
             "héllo wörld €uro 😀 ok".encode(), "// комментарий\nlet s := \"строка\";".encode(), b"'\\\xf0\x9f\x98\x80'", b"'\xc3\xa9'"]
    out = list(fixed)
    for s in seeds[:3]:
        out.append(s[:700])
    for _ in range(n_mut):
        s = rng.choice(seeds)
        w0 = rng.randrange(max(1, len(s) - 100))
        b = bytearray(s[w0:w0 + rng.choice([40, 120, 220])])
        for _ in range(rng.randrange(1, 6)):
            i = rng.randrange(len(b) + 1)
            r = rng.random()
            if r < 0.35:
                b[i:i] = rng.choice([b"\xff", b"\xc3", b"\xe2\x82", b"\xf0\x9f", "é".encode(), "€".encode(), "😀".encode(), b"\t", b"\r", b"\n",
                                     b"'", b'"', b"/*", b"*/", b"//", b"\\", b"0x", b"_", b"-", b".", b"@", b"\x00"])
            elif r < 0.6 and i < len(b):
                b[i] = rng.randrange(256)
            elif r < 0.8 and i < len(b):
                del b[i]
            else:
                b[i:i] = rng.choice(POOL)
        out.append(bytes(b))
    for _ in range(n_rand):
        out.append(random_bytes(rng))
    return out

def lexer_spec_oracle(src, r):
    """the property itself on the real lexer's output: returns list of (key, what)"""
    if r is None:
        return [("lexer:noresult", "no result from the lexer hook")]
    if r["p"]:
        if r["p"].startswith("process died"):
            return [("lexer:died", "lexer hook process died or hung: " + r["p"][:200])]
        return [("crash:" + frame_key(r["p"]), "lexer panics: " + r["p"].splitlines()[0][:160])]
    toks = r["t"]
    bad = []
    if not toks or toks[-1][0] != "end_of_file" or sum(1 for t in toks if t[0] == "end_of_file") != 1:
        bad.append(("lexer:eof", "token list does not end with exactly one EOF token"))
        return bad
    n = len(src)
    if toks[-1][4] != n:
        bad.append(("lexer:index", "EOF token at index %d but the input has %d bytes (index ran past / short of the end)" % (toks[-1][4], n)))
    prev = 0
    for t in toks:
        si, ei = t[4], t[7]
        if not (prev <= si <= ei <= n) or (t[0] != "end_of_file" and si == ei):
            bad.append(("lexer:span", "token %r spans [%d,%d) outside the input / overlapping (previous end %d, |src|=%d)" % (t[0], si, ei, prev, n)))
            break
        prev = ei
    lines = src.split(b"\n")
    for e in r["e"]:
        l, c = e[1], e[2]
        if not (1 <= l <= len(lines)) or not (1 <= c <= 2 + len(lines[l - 1]) + 3 * lines[l - 1].count(b"\t")):
            bad.append(("lexer:errloc", "lexer error located at %d:%d, outside the input" % (l, c)))
            break
    return bad

def coq_case(i, src, r):
    toks = []
    for t in r["t"]:
        kind = t[0].encode(); text = bytes.fromhex(t[1])
        k = KIND_NAMES.get(kind) or (common.coq_bytes(kind) if kind else "(@nil Z)")
        if kind == b"end_of_file" and text == b"end of file":
            tx = "eof_text"
        elif text == kind and kind not in KIND_NAMES:
            tx = k
        else:
            tx = common.coq_bytes(text) if text else "(@nil Z)"
        toks.append("(%s, %s, (%d, %d, %d), (%d, %d, %d))" % (k, tx, t[2], t[3], t[4], t[5], t[6], t[7]))
    errs = []
    for e in r["e"]:
        code, arg = map_lex_error(bytes.fromhex(e[0]))
        errs.append("(%d, %d, %d, %d)" % (code, arg, e[1], e[2]))
    return "(%d, %s, [%s], [%s])" % (i, common.coq_bytes(src) if src else "(@nil Z)", "; ".join(toks), "; ".join(errs))

def lexer_correspondence(run, inputs, results, tag, timeout=600):
    """returns list of ids where the model and the implementation differ (None if the evaluation itself failed)."""
    shards = []
    cur = []; size = 0
    for i, (src, r) in enumerate(zip(inputs, results)):
        if r is None or r["p"]:
            continue
        cur.append(coq_case(i, src, r)); size += len(src) + 40 * len(r["t"])
        if size > 40000:
            shards.append(cur); cur = []; size = 0
    if cur:
        shards.append(cur)
    def ev(k):
        content = ("From Coq Require Import ZArith List.\nFrom FV Require Import Models.LexerTot gen.Gen_C13.\nImport ListNotations.\n"
                   "Open Scope Z_scope.\nDefinition cases : list lcase := [\n" + ";\n".join(shards[k]) + "\n].\n"
                   "Eval vm_compute in (bad_ids lex_ops lex_keywords cases).\n")
        ok, out = common.coq_eval("c13_%s_%d_%d" % (tag, run.seed, k), content, timeout=timeout)
        ids = common.parse_bad_ids(out) if ok else None
        return ids, out
    bad = []
    for ids, out in common.pmap(ev, range(len(shards)), workers=4):
        if ids is None:
            return None, out[-1500:]
        bad += ids
    return bad, ""

def shrink_bytes(src, pred, budget=60):
    """greedy delta debugging on a byte string (pred(src) True = still failing)."""
    cur = src; n = 2; calls = 0
    while len(cur) >= 2 and calls < budget:
        chunk = max(1, len(cur) // n); shr = False
        for i in range(0, len(cur), chunk):
            cand = cur[:i] + cur[i + chunk:]
            calls += 1
            if pred(cand):
                cur = cand; n = max(n - 1, 2); shr = True
                break
            if calls >= budget:
                break
        if not shr:
            if chunk == 1:
                break
            n = min(n * 2, len(cur))
    return cur

# ------------------------------------------------------------------------------------------------ CLI sample

QBE_PROBES = [b"fn main() {\n    let a: []i64 = [1, 2];\n    let i := 0;\n    a[i] += 5;\n}\n"]

import threading
_CLI_LOCK = threading.Lock()

def cli_case(work, idx, kind, files, mode, _retry=False):
    d, files_abs = write_case(work, 100000 + idx, files)
    out = os.path.join(d, "out.wasm" if mode == "wasm" else "out")
    args = {"t": ["-t"], "native": ["-o", out], "wasm": ["-target", "wasm", "-o", out]}[mode] + ["main.fer"]
    t0 = time.time()
    env_libs = common.impl().libs
    try:
        p = subprocess.run([common.impl().ferret] + args, cwd=d, stdout=subprocess.PIPE, stderr=subprocess.PIPE, timeout=25 if _retry else 20,
                           preexec_fn=common.limit_mem(4),
                           env=dict(os.environ, NO_COLOR="1", FERRET_LIBS_PATH=env_libs))
        rc, so, se = p.returncode, common.strip_ansi(p.stdout.decode("utf8", "replace")), common.strip_ansi(p.stderr.decode("utf8", "replace"))
    except subprocess.TimeoutExpired:
        rc, so, se = -9, "", "TIMEOUT"
    wall = time.time() - t0
    if (rc == -9 or wall > 10 or b"pthread_create failed" in (se + so).encode()[:400]) and not _retry:
        # the machine is shared: judge slowness on a second, solitary run
        with _CLI_LOCK:
            return cli_case(work, idx, kind, files, mode, _retry=True)
    text = se + "\n" + so
    bad = []
    if rc == -9 or wall > 10:
        bad.append(("hang", "the CLI did not finish within 10 s (%.1f s)" % wall))
    elif "out of memory" in text or "cannot allocate memory" in text:
        bad.append(("hang", "the CLI allocates without bound: it ran into the address-space cap (top frame %s)" % frame_key(text)))
    elif rc not in (0, 1) or "panic:" in text or "goroutine " in text or "fatal error:" in text:
        bad.append(("crash:" + frame_key(text), "the CLI crashed (exit status %d): %s" % (rc, (re.search(r"(panic:|fatal error:).*", text) or [text[:120]])[0][:160])))
    else:
        tool_err = bool(re.search(r"(?m)^(qbe:.*|.*\bld: (?!warning|NOTE).*|.*collect2: error.*|.*: error: .*|.*undefined reference.*)$", text))
        bad += check_output(rc == 0, "", text, files_abs, env_libs)
        if rc == 0 and tool_err:
            bad.append(("status:success-with-tool-error", "exit status 0 although the back-end tool chain printed an error"))
        bad += artifact_bads(rc == 0, mode, out, text)
    return dict(rc=rc, wall=wall, text=text[:3000], bad=bad)

# ------------------------------------------------------------------------------------------------ emitter tie (label layout)

EMIT_SRC = "\n".join(["y" * 70, "x" * 70, "z" * 70, "w" * 70])
_DUAL_RE = re.compile(r"^( *)([\^~]+|-+)( *)([\^~]+|-+) (PMSG|SMSG)")
_SINGLE_RE = re.compile(r"^( *)([\^~]+|-+) (PMSG|SMSG)")

def run_emitter_hook(reqs, timeout=60):
    hook = os.environ.get("C13_EMITTER_HOOK") or common.build_hook("emitter")
    res = {}
    todo = list(reqs); restarts = 0
    while todo and restarts <= 3:
        inp = "".join(json.dumps(r) + "\n" for r in todo).encode()
        try:
            p = subprocess.run([hook], input=inp, stdout=subprocess.PIPE, stderr=subprocess.PIPE, timeout=timeout,
                               env=dict(os.environ, NO_COLOR="1"), preexec_fn=common.limit_mem(1.5))
            out, err = p.stdout, p.stderr.decode("utf8", "replace")
        except subprocess.TimeoutExpired as e:
            out, err = e.stdout or b"", "TIMEOUT"
        for ln in out.split(b"\n"):
            if ln.strip():
                try:
                    j = json.loads(ln.decode("utf8", "replace"))
                    res[j["id"]] = dict(out=common.strip_ansi(j["out"]), panic=j["panic"])
                except ValueError:
                    pass
        rest = [r for r in todo if r["id"] not in res]
        if rest:
            res[rest[0]["id"]] = dict(out="", panic="process died: " + err[:800] + " ... " + err[-800:])
            rest = rest[1:]; restarts += 1
        todo = rest
    return res

def emitter_cases(rng, quick):
    """label pairs on one source line: exhaustive over small columns (nested / overlapping / adjacent / identical / reversed
    spans all occur), random wider ones, ends on a later line; single labels; and primary + two secondaries (panic only)."""
    reqs = []; n = 0
    R = range(1, 7) if quick else range(1, 10)
    for ps in R:
        for pe in R:
            for ss in R:
                for se in R:
                    reqs.append(dict(id=n, kind="dual", src=EMIT_SRC, p=[2, ps, 2, pe], s=[[2, ss, 2, se]])); n += 1
    for _ in range(200 if quick else 3000):
        ps, ss = rng.randrange(1, 60), rng.randrange(1, 60)
        pe, se = ps + rng.randrange(-3, 40), ss + rng.randrange(-3, 40)
        pl, sl = (3 if rng.random() < 0.15 else 2), (3 if rng.random() < 0.15 else 2)
        reqs.append(dict(id=n, kind="dual", src=EMIT_SRC, p=[2, ps, pl, max(1, pe)], s=[[2, ss, sl, max(1, se)]])); n += 1
    for ps in range(1, 12):
        for pe in range(1, 12):
            reqs.append(dict(id=n, kind="single", src=EMIT_SRC, p=[2, ps, 2, pe], s=[])); n += 1
    for _ in range(150 if quick else 1500):
        a = [rng.randrange(1, 40) for _ in range(6)]
        l2 = rng.choice([2, 2, 3])
        reqs.append(dict(id=n, kind="multi", src=EMIT_SRC, p=[2, a[0], 2, a[0] + a[1] - 5], s=[[2, a[2], 2, a[2] + a[3] - 5], [l2, a[4], l2, a[4] + a[5] - 5]])); n += 1
    for r in reqs:          # columns must be >= 1 (hypothesis of the theorems; Position columns are 1-based)
        r["p"][3] = max(1, r["p"][3])
        for x in r["s"]:
            x[3] = max(1, x[3])
    return reqs

def emitter_tie(run, rng, quick, budget):
    """correspondence of Models/DualLabel.v with the REAL emitter + spec-side oracle (no panic while rendering)."""
    reqs = emitter_cases(rng, quick)
    res = run_emitter_hook(reqs)
    dcases = []; scases = []; unparsed = []
    for r in reqs:
        o = res.get(r["id"])
        run.case(("emit", r["kind"], tuple(r["p"]), tuple(map(tuple, r["s"]))), nontrivial=True,
                 sample={"emitter_labels": {"primary": r["p"], "secondary": r["s"]}, "rendered": (o or {}).get("out", "")[-220:]} if r["id"] == 40 else None)
        run.count("emitter:" + r["kind"])
        if o is None:
            continue
        if o["panic"]:
            key = "crash:" + frame_key(o["panic"]) if not o["panic"].startswith("process died") else "crash:emitter-died"
            run.violation(key, "the diagnostics emitter panics while rendering %s label(s) on one line (primary span cols %d..%d, secondary %s): %s" %
                          (1 + len(r["s"]), r["p"][1], r["p"][3], [(x[1], x[3]) for x in r["s"]], o["panic"].splitlines()[0][:140]),
                          {"kind": "emitter", "src": r["src"], "p": r["p"], "s": r["s"], "panic": o["panic"][:1500],
                           "how": "echo '{\"id\":0,\"src\":...,\"p\":[..],\"s\":[[..]]}' | hook_emitter   (hooks/emitter/main.go)"})
            continue
        lines = o["out"].split("\n")
        ul = None
        for k, ln in enumerate(lines):
            if re.match(r"^\s*2 \| x+", ln) and k + 1 < len(lines) and "| " in lines[k + 1]:
                ul = lines[k + 1].split("| ", 1)[1]
                break
        if r["kind"] == "dual":
            m = _DUAL_RE.match(ul or "")
            if not m:
                unparsed.append(r["id"]); continue
            left_primary = m.group(2)[0] in "^~"
            dcases.append("(%d, (%d, %d), (%d, %d), (%s, %d, %d, %d, %d))" % (r["id"], r["p"][1], r["p"][3], r["s"][0][1], r["s"][0][3],
                          common.coq_bool(left_primary), len(m.group(1)), len(m.group(2)), len(m.group(3)), len(m.group(4))))
        elif r["kind"] == "single":
            m = _SINGLE_RE.match(ul or "")
            if not m:
                unparsed.append(r["id"]); continue
            scases.append("(%d, (%d, %d), (%d, %d))" % (r["id"], r["p"][1], r["p"][3], len(m.group(1)), len(m.group(2))))
    run.extra["emitter_cases"] = len(reqs)
    content = ("From Coq Require Import ZArith List.\nFrom FV Require Import Models.DualLabel.\nImport ListNotations.\nOpen Scope Z_scope.\n"
               "Definition dcs : list dcase := [\n" + ";\n".join(dcases) + "\n].\nDefinition scs : list scase := [\n" + ";\n".join(scases) + "\n].\n"
               "Eval vm_compute in (dbad_ids dcs ++ sbad_ids scs).\n")
    ok, out = common.coq_eval("c13_emit_%d" % run.seed, content, timeout=int(max(30, min(budget.remaining(), 120))))
    bad = common.parse_bad_ids(out) if ok else None
    byid = {r["id"]: r for r in reqs}
    if bad is None:
        run.violation("correspondence:C13-emitter-eval", "the label-layout model could not be evaluated", {"log": out[-1500:]}, no_input=True)
    elif bad or unparsed:
        i = (bad or unparsed)[0]
        run.violation("correspondence:C13-emitter", "the real emitter and the proved label-layout model disagree on %d of %d renderings (%d not parsable)" %
                      (len(bad), len(dcases) + len(scases), len(unparsed)),
                      {"kind": "emitter", "src": EMIT_SRC, "p": byid[i]["p"], "s": byid[i]["s"], "rendered": res[i]["out"][-600:],
                       "correspondence": "Models/DualLabel.dual_layout vs diagnostics.(*Emitter).printCompactDualLabel"}, no_input=True)

# ------------------------------------------------------------------------------------------------ known-finding probes

def probe_known_findings(run, work):
    """One fixed compile per OPEN known finding of harness/meta/C13.findings.json (its recorded replay input), judged by
    the same oracle as every other case: the finding's own key is expected (-> KNOWN-FINDING line on every run); any OTHER
    key the probe produces goes through run.violation as usual; a finding that no longer reproduces gets a NOTE."""
    opened = [k for k in run.known if k.get("status") == "open"]
    reqs = []; meta = []
    for n, k in enumerate(opened):
        rp = k.get("replay") or {}
        files = {name: (v.encode("utf8") if isinstance(v, str) else v) for name, v in (rp.get("files") or {}).items()}
        if "main.fer" not in files:
            print("NOTE: property=C13 known finding %s has no replayable input" % k["id"])
            continue
        cmd = rp.get("cmd", "")
        mode = "wasm" if "-target wasm" in cmd else "native" if "-o " in cmd else "t"
        d, fa = write_case(work, 700000 + n, files)
        out = os.path.join(d, "out.wasm" if mode == "wasm" else "out")
        reqs.append(dict(id=n, file=os.path.join(d, "main.fer"), mode=mode, out=out))
        meta.append((n, k, files, fa, mode, out))
    if not reqs:
        return
    res = run_batch(reqs, nproc=1, timeout=120)
    libs = common.impl().libs
    reproduced = []
    for n, k, files, fa, mode, out in meta:
        r = res[n]
        bads = check_output(r["ok"], r["panic"], r["out"], fa, libs)
        if not r["panic"]:
            bads += artifact_bads(r["ok"], mode, out, r["out"])
        run.case(("probe", k["id"]), nontrivial=True)
        run.count("stream:known-finding-probe")
        hit = False
        for key, what in bads:
            if key == k["key"]:
                hit = True
            if key == "hang":
                key = "hang:" + hashlib.sha256(repr(sorted((nm, v) for nm, v in files.items())).encode()).hexdigest()[:12]
            run.violation(key, what, replay_dict("known-finding-probe", files, mode, {"observed": (r["panic"] or r["out"])[:1500]}))
        if hit:
            reproduced.append(k["id"])
        else:
            print("NOTE: property=C13 known finding %s did not reproduce on its recorded input (observed keys: %s)%s" %
                  (k["id"], [b[0] for b in bads] or "none",
                   "" if bads else " — if this is the unchanged tree, close it in harness/meta/C13.findings.json"))
    run.extra["known_finding_probes"] = {"probed": [m[1]["id"] for m in meta], "reproduced": reproduced}

# ------------------------------------------------------------------------------------------------ main

def _dedupe(run):
    """report each canonical key once (common.Run.violation does not dedupe)."""
    orig = run.violation
    seen = set()
    def v(key, what, replay, no_input=False):
        if key in seen:
            return False
        seen.add(key)
        return orig(key, what, replay, no_input)
    run.violation = v

def main(run):
    _dedupe(run)
    quick = run.tier == "quick"
    work = Work()
    rng = run.rng
    run.rule = ("two parts. Proved: lexer port + exit-status glue, tables regenerated from the tree. Correspondence: a case is one byte "
                "string lexed by the real lexer and by the model (tokens kind/text/line/col/index, error kind/position compared). "
                "Explored (NOT proved): a case is one project directory compiled in-process (hook batch) or by the CLI and judged by the "
                "spec-side oracle (crash, time, success<=>no error text, located error, artifact); distinct = distinct file contents")
    run.trusted += ["translator in harness/c13.py (regexp scan of tokenizer.go, tokens.go, numeric.go, compiler.go, main.go, bag.go)",
                    "hooks/lexer/main.go and hooks/batch/main.go (exported API only); Go regexp engine semantics for the 7 ported patterns "
                    "(leftmost-first) are tied by the correspondence check, not proved",
                    "spec-side oracle of harness/c13.py (reading of the emitter's text format: `error...:` lines, `--> file:L:C`)"]
    run.assumptions = ["crash-freedom / bounded time / located errors / no artifact after failure of parser..emitter are EXPLORED on a seeded "
                       "malformed stream, not proved (C13_full is stated, not proved)",
                       "the emitter prints one `error` block per Error diagnostic in the bag (checked by the oracle: Success <=> no error text)",
                       "bounded time is checked with a 10 s limit on inputs of at most a few KB; the lexer's per-iteration cost is linear in the "
                       "remaining input (57 regexp searches + a copy of the source), so very large inputs are quadratic — not covered"]
    run.extra["exploration_not_proof"] = True
    # ---------------- translator
    try:
        ops, kws, ex = gen_coq()
    except PortOutdated as e:
        run.violation("translator:C13", "the pattern table / return sites can no longer be regenerated: %s" % e,
                      {"theorem_file": "coq/Props/C13.v", "translator": "harness/c13.py gen_coq", "error": str(e)}, no_input=True)
        return
    run.extra["operator_patterns"] = len(ops); run.extra["keywords"] = len(kws)
    run.extra["compile_return_sites"] = [dict(line=s["line"], success=s["text"]) for s in ex["sites"]]
    phase = {}; tph = time.time()
    # ---------------- proof stage
    ok = run.proof("Props/C13.v")
    phase["proof"] = round(time.time() - tph, 1); tph = time.time()
    proof_broken = not ok
    # the tie stage bounds its own time: hard wall-clock ceiling, and fail-fast after MAX_FATAL crash/hang results
    ceiling = float(os.environ.get("C13_TIE_CEILING_S", "240" if quick else "780"))
    def known_crash(r):
        return any(run._match_known(k) is not None for k, _ in check_output(False, r["panic"], "", {}))
    budget = Budget(deadline=time.time() + ceiling, max_fatal=5, ignore=known_crash)
    run.extra["tie_stage_ceiling_s"] = ceiling
    # ---------------- seeds and lexer correspondence
    seeds = load_seeds()
    lin = lexer_inputs(rng, seeds, 100 if quick else 600, 80 if quick else 400)
    lres = run_lexer_hook(lin)
    nbadspec = 0
    for i, (src, r) in enumerate(zip(lin, lres)):
        run.case(("lex", src), nontrivial=len(src) > 0, sample={"lexer_input": src[:60].decode("latin1"), "tokens": len(r["t"]) if r else None} if i in (12, 40) else None)
        run.count("lexer:" + ("ascii" if all(c < 128 for c in src) else "non-ascii"))
        for key, what in lexer_spec_oracle(src, r):
            if nbadspec < 3:
                def still(b, key=key):
                    rr = run_lexer_hook([b], timeout=5, max_restarts=0)[0]
                    return any(k == key for k, _ in lexer_spec_oracle(b, rr))
                small = shrink_bytes(src, still, budget=24) if len(src) > 1 and not budget.stop() else src
                if run.violation(key, "lexer: " + what, {"kind": "lexer", "input_hex": small.hex(), "input_text": small.decode("latin1"),
                                                         "how": "echo <hex> | hook_lexer  (hooks/lexer/main.go)", "original_hex": src.hex()[:4000]}):
                    nbadspec += 1
    bad, log = lexer_correspondence(run, lin, lres, "lex", timeout=int(max(30, min(budget.remaining(), 150 if quick else 500))))
    run.extra["lexer_cases"] = len(lin)
    if bad is None:
        run.violation("correspondence:C13-lexer-eval", "the model could not be evaluated on the lexer cases", {"log": log}, no_input=True)
    elif bad and nbadspec == 0:
        i = bad[0]
        def differs(b):
            rr = run_lexer_hook([b], timeout=5, max_restarts=0)[0]
            if rr is None or rr["p"]:
                return False
            ids, _ = lexer_correspondence(run, [b], [rr], "shr", timeout=60)
            return bool(ids)
        small = shrink_bytes(lin[i], differs, budget=25)
        rr = run_lexer_hook([small])[0]
        run.violation("correspondence:C13-lexer", "the real lexer and the proved lexer model disagree on %d of %d inputs (tokens/positions/errors); "
                      "the theorems of Props/C13.v no longer describe the implementation" % (len(bad), len(lin)),
                      {"kind": "lexer", "input_hex": small.hex(), "input_text": small.decode("latin1"), "implementation_tokens": rr["t"][:40] if rr else None,
                       "implementation_errors": rr["e"][:10] if rr else None, "correspondence": "Models/LexerTot.tokenize vs lexer.Tokenize",
                       "disagreeing_case_ids": bad[:20]}, no_input=True)
    phase["lexer"] = round(time.time() - tph, 1); tph = time.time()
    # ---------------- deterministic probes of the open known findings (replayed first, every tier)
    probe_known_findings(run, work)
    # ---------------- explored part: malformed stream through the in-process driver
    lexed = [token_spans(s, r) if r and not r["p"] else [] for s, r in zip(seeds, run_lexer_hook(seeds))]
    nm = 900 if quick else 7000
    cases = gen_stream(rng, seeds, lexed, nm, nm // 5, 60 if quick else 300, nm // 8)
    for s in seeds[:6]:
        cases.append(("seed", {"main.fer": s}))
    cases += semantic_family(rng, 80 if quick else 600)
    cdir = os.path.join(common.VERIF, "corpus", "C13")        # minimised past failures, replayed on every run
    if os.path.isdir(cdir):
        for fn in sorted(os.listdir(cdir)):
            cases.append(("corpus", {"main.fer": open(os.path.join(cdir, fn), "rb").read()}))
    reqs = []; meta = []
    for i, (k, files) in enumerate(cases):
        d, fa = write_case(work, i, files)
        mode = "t"
        if k in ("seed",) or rng.random() < (0.04 if quick else 0.02):
            mode = rng.choice(["native", "wasm"]) if k != "seed" else "native"
        out = os.path.join(d, "out.wasm" if mode == "wasm" else "out")
        reqs.append(dict(id=i, file=os.path.join(d, "main.fer"), mode=mode, out=out))
        meta.append((k, files, fa, mode, out))
    t0 = time.time()
    res = run_batch(reqs, timeout=240 if quick else 780, budget=budget) if not budget.stop() else {}
    run.extra["batch_wall_s"] = round(time.time() - t0, 1)
    redo = [q for q in reqs if q["id"] in res and "pthread_create failed" in (res[q["id"]]["panic"] or "")][:6]
    for q in redo:
        res.update(run_batch([q], nproc=1, timeout=40))
    run.extra["stream_generated"] = len(reqs); run.extra["stream_run"] = len(res)
    if len(res) < len(reqs):
        run.extra["tie_stage_truncated"] = "malformed stream stopped after %d of %d cases: %s" % (len(res), len(reqs), budget.why)
    libs = common.impl().libs
    seen_keys = {}
    for i, (k, files, fa, mode, out) in enumerate(meta):
        r = res.get(i)
        if r is None:
            run.count("stream-not-run"); continue
        run.case(("proj", canon_case(files)), nontrivial=True,
                 sample={"kind": k, "main.fer": (files.get("main.fer") or b"")[:80].decode("latin1"), "ok": r["ok"]} if i in (3, 1000) else None)
        run.count("stream:" + k.split("+")[0]); run.count("mode:" + mode)
        run.count("verdict:" + ("hang" if is_hang(r["panic"]) else "crash" if r["panic"] else "accepted" if r["ok"] else "rejected"))
        bads = check_output(r["ok"], r["panic"], r["out"], fa, libs)
        if not r["panic"]:
            bads += artifact_bads(r["ok"], mode, out, r["out"])
            ndual = len(re.findall(r"(?m)^\s*\| +(?:[\^~]+ *-+|-+ *[\^~]+)(?: |$)", r["out"]))
            if ndual:
                run.count("rendered-two-labels-on-one-line", ndual)
        for key, what in bads:
            size = sum(len(v or b"") for v in files.values())
            if key not in seen_keys or size < seen_keys[key][0]:
                seen_keys[key] = (size, i, what)
    # report: crash / hang keys first; shrinking is bounded (attempts, per-attempt compile timeout, total time)
    order = sorted(seen_keys.items(), key=lambda kv: (0 if kv[0].startswith(("hang", "crash")) else 1, kv[0]))
    shrink_until = time.time() + (60 if quick else 180)
    for key, (size, i, what) in order:
        k, files, fa, mode, out = meta[i]
        small = files
        if (len(files) == 1 and size > 8 and run._match_known(key) is None and time.time() < shrink_until
                and not key.startswith("artifact")):
            def still(b, key=key, mode=mode):
                if time.time() >= shrink_until:
                    return False
                d2, fa2 = write_case(work, 900000 + rng.randrange(10 ** 6), {"main.fer": b})
                rr = run_batch([dict(id=0, file=os.path.join(d2, "main.fer"), mode=mode, out=os.path.join(d2, "out"))], nproc=1, timeout=20,
                               req_timeout_ms=3000)[0]
                return any(kk == key for kk, _ in check_output(rr["ok"], rr["panic"], rr["out"], fa2, libs))
            small = {"main.fer": shrink_bytes(files["main.fer"], still, budget=30)}
        rkey = key
        if key == "hang":      # canonical key of a hang: hash of the (shrunk) hanging input — there is no stack to name
            rkey = "hang:" + hashlib.sha256(repr(sorted((n, v) for n, v in small.items())).encode()).hexdigest()[:12]
        run.violation(rkey, what, replay_dict(k, small, mode, {"observed": (res[i]["panic"] or res[i]["out"])[:1500],
                                                               "time_limit_ms": REQ_TIMEOUT_MS, "address_space_cap_gib": STREAM_MEM_GIB}))
    phase["stream"] = round(time.time() - tph, 1); tph = time.time()
    # ---------------- emitter tie: label layout model vs the real emitter, panic-freedom of two labels on one line
    # (after the stream: a crash the stream reached through a Ferret program is reported with that program as replay; the
    #  same crash site found here is then a duplicate.  Cheap, so it also runs when the stream stopped on fail-fast.)
    if budget.remaining() > 0:
        emitter_tie(run, rng, quick, budget)
    phase["emitter"] = round(time.time() - tph, 1); tph = time.time()
    # ---------------- a sample through the real CLI (exit status, stderr, wall time, output path)
    ncli = 36 if quick else 150
    if budget.stop():
        ncli = 0
        run.extra["tie_stage_truncated"] = (run.extra.get("tie_stage_truncated", "") + "; CLI sample skipped: %s" % budget.why).lstrip("; ")
    ran = [i for i in range(len(meta)) if i in res]
    pick = ([i for i in ran if meta[i][0] == "seed"] + [i for i in ran if meta[i][0] == "oneline"][:6] +
            rng.sample(ran, min(ncli, len(ran)))) if ncli else []
    jobs = [(j, meta[i][0], meta[i][1], ("native" if meta[i][0] == "seed" else rng.choice(["t", "native", "native", "wasm"])), i) for j, i in enumerate(pick)]
    if ncli:
        jobs += [(len(jobs) + j, "qbe-probe", {"main.fer": p}, "native", None) for j, p in enumerate(QBE_PROBES)]
    def cli_job(jb):
        if budget.stop():
            return None
        c = cli_case(work, jb[0], jb[1], jb[2], jb[3])
        if any(kk.startswith(("hang", "crash")) and run._match_known(kk) is None for kk, _ in c["bad"]):
            budget.note({"panic": "cli"})
        return c
    cres = common.pmap(cli_job, jobs, workers=4)
    done = [c for c in cres if c is not None]
    run.extra["cli_runs"] = len(done); run.extra["cli_max_wall_s"] = round(max([c["wall"] for c in done] or [0]), 2)
    if len(done) < len(jobs):
        run.extra["tie_stage_truncated"] = (run.extra.get("tie_stage_truncated", "") + "; CLI sample stopped after %d of %d runs: %s" % (len(done), len(jobs), budget.why)).lstrip("; ")
    for (j, k, files, mode, i), c in zip(jobs, cres):
        if c is None:
            continue
        run.case(("cli", canon_case(files), mode), nontrivial=True)
        run.count("cli:" + mode); run.count("cli-exit:%d" % c["rc"])
        for key, what in c["bad"]:
            if key == "hang":
                key = "hang:" + hashlib.sha256(repr(sorted((n, v) for n, v in files.items())).encode()).hexdigest()[:12]
            run.violation(key, "CLI: " + what, replay_dict(k, files, mode, {"observed": c["text"][:1500], "exit_status": c["rc"]}))
        if i is not None and mode == meta[i][3] and not res[i]["panic"] and c["rc"] in (0, 1) and (c["rc"] == 0) != res[i]["ok"]:
            run.violation("hook-vs-cli", "the in-process driver and the CLI disagree on acceptance", replay_dict(k, files, mode), no_input=False)
    phase["cli"] = round(time.time() - tph, 1)
    run.extra["phase_wall_s"] = phase
    # ---------------- proof failure without a concrete input
    if proof_broken and not run.violations:
        where, log = run.proof_failure
        run.violation("proof:C13:" + where, "Props/C13 no longer checks (%s)" % where,
                      {"theorem_file": "coq/Props/C13.v", "where": where, "log": log,
                       "return_sites": ex["sites"], "run_checked": ex["run_checked"]}, no_input=True)
    elif proof_broken:
        where, log = run.proof_failure
        run.extra["proof_failure"] = where

def replay(run, path):
    j = json.load(open(path))
    rp = j["replay"]
    work = Work()
    if rp.get("kind") == "emitter":
        o = run_emitter_hook([dict(id=0, src=rp["src"], p=rp["p"], s=rp["s"])])[0]
        print(o["out"]); print(o["panic"][:1500])
        bad = [("crash:" + frame_key(o["panic"]), "the emitter panics")] if o["panic"] else []
    elif rp.get("kind") == "lexer":
        src = bytes.fromhex(rp["input_hex"])
        r = run_lexer_hook([src])[0]
        print(json.dumps(r)[:2000])
        bad = lexer_spec_oracle(src, r)
    else:
        files = {k: (None if v is None else bytes.fromhex(v["hex"])) for k, v in rp["files"].items()}
        c = cli_case(work, 0, rp.get("kind", "?"), files, rp.get("mode", "t"))
        print(c["text"][:3000]); print("exit status", c["rc"])
        bad = c["bad"]
    for key, what in bad:
        print("REPRODUCED:", key, what)
    return 1 if bad else 0
