"""C04 — fixed-size array accesses are in bounds and hit the indexed element.

Proof stage: coq/Props/C04.v (port of the consteval walk, constArrayIndex/lowerIndexAddr as repaired by
fixes/C04-fixed-array-index.patch, emitBoundsCheckedIndex; csem = ssem for every accepted ArrLang program).
Correspondence: generated ArrLang programs (literal, const, let-bound, reassigned before/after the use,
branch-dependent and loop-carried indices, N in 1..6, reads and writes, negative indices, i64 indices) are
type-checked one by one (in-process batch hook) -> diagnostics T0009/T0028 in emission order vs `walk`; accepted
programs are compiled natively with the real CLI (several scenarios per executable), run with stdout on a pty, and the printed
lines / panic are compared with `csem` (does the port predict the code?) and `ssem` (source semantics = the
property), both inside Coq (vm_compute) and against an independent Python interpreter of the source semantics.
Search: a disagreeing scenario is re-run alone, shrunk (statement deletion, literal simplification) while the
executable still differs from the source semantics, and reported with the program text."""
import os, re, json, pty, subprocess, hashlib
import common
from common import Work

M31 = 1 << 31
M32 = 1 << 32

def wrap32(x):
    return (x + M31) % M32 - M31

# ------------------------------------------------------------------ AST (python tuples)
# expr: ('lit', n>=0) ('var', x) ('neg', e) ('bin', op, e1, e2) ('rd', a, i)          op in '+-*'
# stmt: ('let', x, e) ('const', x, e) ('asg', x, e) ('opasg', x, op, e) ('incr', x) ('decr', x) ('print', e)
#       ('wr', a, i, e) ('opwr', a, i, op, e) ('if', c, e1, e2, [then], [else]) ('while', c, e1, e2, [body])
# scenario: dict(arrs=[[...], ...], body=[stmt], wide=set of var ids declared i64)

OPN = {'+': 'Add', '-': 'Sub', '*': 'Mul'}
CMPN = {'<': 'Lt', '<=': 'Le', '==': 'Eq', '!=': 'Ne', '>': 'Gt', '>=': 'Ge'}

def lit(n):
    return ('lit', n) if n >= 0 else ('neg', ('lit', -n))

def binop(op, a, b):
    return a + b if op == '+' else a - b if op == '-' else a * b

def cmpop(c, a, b):
    return {'<': a < b, '<=': a <= b, '==': a == b, '!=': a != b, '>': a > b, '>=': a >= b}[c]

# ------------------------------------------------------------------ rendering to Ferret
def r_expr(e):
    k = e[0]
    if k == 'lit': return str(e[1])
    if k == 'var': return "v%d" % e[1]
    if k == 'neg': return "-%s" % r_atom(e[1])
    if k == 'bin': return "%s %s %s" % (r_atom(e[2]), e[1], r_atom(e[3]))
    if k == 'rd': return "a%d[%s]" % (e[1], r_expr(e[2]))
    raise ValueError(e)

def r_atom(e):
    if e[0] in ('lit', 'var', 'rd'): return r_expr(e)
    return "(" + r_expr(e) + ")"

def r_block(ss, ind, out):
    p = "    " * ind
    for s in ss:
        k = s[0]
        if k == 'let': out.append("%slet v%d := %s;" % (p, s[1], r_expr(s[2])))
        elif k == 'const': out.append("%sconst v%d := %s;" % (p, s[1], r_expr(s[2])))
        elif k == 'asg': out.append("%sv%d = %s;" % (p, s[1], r_expr(s[2])))
        elif k == 'opasg': out.append("%sv%d %s= %s;" % (p, s[1], s[2], r_expr(s[3])))
        elif k == 'incr': out.append("%sv%d++;" % (p, s[1]))
        elif k == 'decr': out.append("%sv%d--;" % (p, s[1]))
        elif k == 'print': out.append("%sio::Println(%s);" % (p, r_expr(s[1])))
        elif k == 'wr': out.append("%sa%d[%s] = %s;" % (p, s[1], r_expr(s[2]), r_expr(s[3])))
        elif k == 'opwr': out.append("%sa%d[%s] %s= %s;" % (p, s[1], r_expr(s[2]), s[3], r_expr(s[4])))
        elif k == 'if':
            out.append("%sif %s %s %s {" % (p, r_atom(s[2]), s[1], r_atom(s[3])))
            r_block(s[4], ind + 1, out)
            if s[5]:
                out.append("%s} else {" % p)
                r_block(s[5], ind + 1, out)
            out.append("%s}" % p)
        elif k == 'while':
            out.append("%swhile %s %s %s {" % (p, r_atom(s[2]), s[1], r_atom(s[3])))
            r_block(s[4], ind + 1, out)
            out.append("%s}" % p)
        else:
            raise ValueError(s)

def r_fn(sc, name):
    out = ["fn %s() {" % name]
    for i, a in enumerate(sc['arrs']):
        out.append("    let a%d: [%d]i32 = [%s];" % (i, len(a), ", ".join(str(x) for x in a)))
    r_block(sc['body'], 1, out)
    out.append("}")
    return out

SEP = 424242421

def r_file(scs):
    out = ['import "std/io";', ""]
    for i, sc in enumerate(scs):
        out += r_fn(sc, "s%d" % i) + [""]
    out.append("fn main() {")
    for i in range(len(scs)):
        out.append("    s%d();" % i)
        out.append("    io::Println(%d);" % SEP)
    out.append("}")
    return "\n".join(out) + "\n"

# ------------------------------------------------------------------ rendering to Coq
def c_expr(e):
    k = e[0]
    if k == 'lit': return "(ELit %d)" % e[1]
    if k == 'var': return "(EVar %d)" % e[1]
    if k == 'neg': return "(ENeg %s)" % c_expr(e[1])
    if k == 'bin': return "(EBin %s %s %s)" % (OPN[e[1]], c_expr(e[2]), c_expr(e[3]))
    if k == 'rd': return "(ERead %d %s)" % (e[1], c_expr(e[2]))
    raise ValueError(e)

def c_block(ss):
    if not ss: return "SSkip"
    parts = [c_stmt(s) for s in ss]
    r = parts[-1]
    for p in reversed(parts[:-1]):
        r = "(SSeq %s %s)" % (p, r)
    return r

def c_stmt(s):
    k = s[0]
    if k == 'let': return "(SLet %d %s)" % (s[1], c_expr(s[2]))
    if k == 'const': return "(SConst %d %s)" % (s[1], c_expr(s[2]))
    if k == 'asg': return "(SAssign %d %s)" % (s[1], c_expr(s[2]))
    if k == 'opasg': return "(SOpAssign %d %s %s)" % (s[1], OPN[s[2]], c_expr(s[3]))
    if k == 'incr': return "(SIncr %d)" % s[1]
    if k == 'decr': return "(SDecr %d)" % s[1]
    if k == 'print': return "(SPrint %s)" % c_expr(s[1])
    if k == 'wr': return "(SWrite %d %s %s)" % (s[1], c_expr(s[2]), c_expr(s[3]))
    if k == 'opwr': return "(SOpWrite %d %s %s %s)" % (s[1], c_expr(s[2]), OPN[s[3]], c_expr(s[4]))
    if k == 'if': return "(SIf %s %s %s %s %s)" % (CMPN[s[1]], c_expr(s[2]), c_expr(s[3]), c_block(s[4]), c_block(s[5]))
    if k == 'while': return "(SWhile %s %s %s %s)" % (CMPN[s[1]], c_expr(s[2]), c_expr(s[3]), c_block(s[4]))
    raise ValueError(s)

def c_zlist(xs):
    return "[" + "; ".join("(%d)" % x for x in xs) + "]"

def c_prog(sc):
    return "{| p_arrs := [%s]; p_body := %s |}" % ("; ".join(c_zlist(a) for a in sc['arrs']), c_block(sc['body']))

# ------------------------------------------------------------------ python mirror of the walk (generator steering + 3-way check)
def ceval(c, e):
    k = e[0]
    if k == 'lit': return e[1]
    if k == 'var': return c.get(e[1])
    if k == 'neg':
        v = ceval(c, e[1]); return None if v is None else -v
    if k == 'bin':
        a = ceval(c, e[2]); b = ceval(c, e[3])
        return None if a is None or b is None else binop(e[1], a, b)
    return None

def check_bounds(c, n, i):
    v = ceval(c, i)
    if v is None or not (-(1 << 63) <= v < (1 << 63)): return [28]
    if v < 0: v += n
    return [9] if v < 0 or v >= n else []

def walk_e(arrs, c, e):
    k = e[0]
    if k in ('lit', 'var'): return []
    if k == 'neg': return walk_e(arrs, c, e[1])
    if k == 'bin': return walk_e(arrs, c, e[2]) + walk_e(arrs, c, e[3])
    if k == 'rd': return walk_e(arrs, c, e[2]) + check_bounds(c, len(arrs[e[1]]), e[2])

def walk_block(arrs, c, ss):
    d = []
    for s in ss:
        k = s[0]
        if k in ('let', 'const', 'asg'):
            d += walk_e(arrs, c, s[2]); c[s[1]] = ceval(c, s[2])
        elif k == 'opasg':
            d += walk_e(arrs, c, s[3]); c[s[1]] = None
        elif k in ('incr', 'decr'):
            c[s[1]] = None
        elif k == 'print':
            d += walk_e(arrs, c, s[1])
        elif k == 'wr':
            d += walk_e(arrs, c, s[2]) + check_bounds(c, len(arrs[s[1]]), s[2]) + walk_e(arrs, c, s[3])
        elif k == 'opwr':
            d += walk_e(arrs, c, s[2]) + check_bounds(c, len(arrs[s[1]]), s[2]) + walk_e(arrs, c, s[4])
        elif k == 'if':
            d += walk_e(arrs, c, s[2]) + walk_e(arrs, c, s[3])
            d += walk_block(arrs, c, s[4]); d += walk_block(arrs, c, s[5])
        elif k == 'while':
            d += walk_e(arrs, c, s[2]) + walk_e(arrs, c, s[3])
            d += walk_block(arrs, c, s[4])
    return d

def py_walk(sc):
    return walk_block(sc['arrs'], {}, sc['body'])

# ------------------------------------------------------------------ python source semantics (spec-side oracle)
class Panic(Exception): pass
class Fuel(Exception): pass
class Big(Exception): pass

class SSem:
    """Source semantics: every access uses the value the index expression has at that moment; negative counts
    from the end; outside [-N, N) the program stops with a panic."""
    def __init__(self, sc, budget=4000, iters=60):
        self.arrs = [list(a) for a in sc['arrs']]
        self.vs = {}
        self.out = []
        self.budget = budget
        self.iters = iters
        self.acc = 0        # number of array accesses executed
        self.dyn = 0        # accesses whose index expression mentions a variable
        self.negacc = 0
    def val(self, v):
        if abs(v) >= (1 << 30): raise Big()
        return wrap32(v)
    def idx(self, a, i):
        v = self.ev(i)
        n = len(self.arrs[a])
        self.acc += 1
        if has_var(i): self.dyn += 1
        if not (-n <= v < n): raise Panic()
        if v < 0:
            self.negacc += 1
            v += n
        return v
    def ev(self, e):
        k = e[0]
        if k == 'lit': return self.val(e[1])
        if k == 'var': return self.vs.get(e[1], 0)
        if k == 'neg': return self.val(-self.ev(e[1]))
        if k == 'bin':
            a = self.ev(e[2]); b = self.ev(e[3]); return self.val(binop(e[1], a, b))
        if k == 'rd':
            j = self.idx(e[1], e[2]); return self.arrs[e[1]][j]
    def block(self, ss):
        for s in ss:
            self.budget -= 1
            if self.budget < 0: raise Fuel()
            k = s[0]
            if k in ('let', 'const', 'asg'): self.vs[s[1]] = self.ev(s[2])
            elif k == 'opasg':
                v = self.ev(s[3]); self.vs[s[1]] = self.val(binop(s[2], self.vs.get(s[1], 0), v))
            elif k == 'incr': self.vs[s[1]] = self.val(self.vs.get(s[1], 0) + 1)
            elif k == 'decr': self.vs[s[1]] = self.val(self.vs.get(s[1], 0) - 1)
            elif k == 'print': self.out.append(self.ev(s[1]))
            elif k == 'wr':
                j = self.idx(s[1], s[2]); v = self.ev(s[3]); self.arrs[s[1]][j] = v
            elif k == 'opwr':
                j = self.idx(s[1], s[2]); v = self.ev(s[4])
                self.arrs[s[1]][j] = self.val(binop(s[3], self.arrs[s[1]][j], v))
            elif k == 'if':
                a = self.ev(s[2]); b = self.ev(s[3])
                self.block(s[4] if cmpop(s[1], a, b) else s[5])
            elif k == 'while':
                n = 0
                while True:
                    a = self.ev(s[2]); b = self.ev(s[3])
                    if not cmpop(s[1], a, b): break
                    n += 1
                    if n > self.iters: raise Fuel()
                    self.block(s[4])

def has_var(e):
    k = e[0]
    if k == 'lit': return False
    if k == 'var' or k == 'rd': return True
    if k == 'neg': return has_var(e[1])
    return has_var(e[2]) or has_var(e[3])

def py_ssem(sc):
    """-> (outputs, panicked, interpreter) or None when the scenario is out of the generator's envelope."""
    m = SSem(sc)
    try:
        m.block(sc['body'])
        return m.out, False, m
    except Panic:
        return m.out, True, m
    except (Fuel, Big):
        return None

# ------------------------------------------------------------------ generator
class Gen:
    def __init__(self, rng):
        self.r = rng

    def scenario(self):
        r = self.r
        self.nv = 0
        self.narr = r.choice([1, 1, 1, 2])
        self.arrs = []
        for a in range(self.narr):
            n = r.choice([1, 2, 3, 3, 4, 5, 6])
            base = r.choice([10, 100, 7])
            self.arrs.append([base * (a + 1) + 11 * j for j in range(n)])
        self.c = {}            # steering copy of the walk's table
        self.scope = [[]]      # visible variables: (id, mutable)
        self.protected = set() # loop counters: only their own step may assign them
        self.kinds = set()
        body = self.block(r.randint(3, 7), 0)
        # final dump with literal indices: makes every earlier write observable
        for a, arr in enumerate(self.arrs):
            for j in range(len(arr)):
                body.append(('print', ('rd', a, ('lit', j))))
        return dict(arrs=self.arrs, body=body, kinds=sorted(self.kinds))

    # ---- helpers
    def visible(self, mutable=None):
        out = []
        for fr in self.scope:
            for (x, m) in fr:
                if mutable is None or m == mutable: out.append(x)
        return out
    def fresh(self, mutable):
        x = self.nv; self.nv += 1
        self.scope[-1].append((x, mutable))
        return x
    def small(self):
        return self.r.choice([0, 1, 1, 2, 2, 3, 4, 5, 6, -1, -1, -2, -3, -6, -7, 7])

    def int_expr(self, depth=0):
        """some int expression, mostly const-evaluable"""
        r = self.r
        t = r.random()
        vs = self.visible()
        if t < 0.35 or (not vs and t < 0.7): return lit(self.small())
        if t < 0.6 and vs: return ('var', r.choice(vs))
        if t < 0.8 and vs: return ('bin', r.choice('+-'), ('var', r.choice(vs)), lit(abs(self.small())))
        if t < 0.88 and depth < 2: return ('bin', r.choice('+-*'), self.int_expr(depth + 1), self.int_expr(depth + 1))
        if t < 0.93 and depth < 2: return ('neg', self.int_expr(depth + 1))
        a = r.randrange(self.narr)
        return ('rd', a, self.index(a))

    def index(self, a):
        """index expression for array a: steered so that the compile-time check mostly passes"""
        r = self.r
        n = len(self.arrs[a])
        t = r.random()
        known = [x for x in self.visible() if self.c.get(x) is not None]
        inr = [x for x in known if -n <= self.c[x] < n]
        if t < 0.16:
            self.kinds.add('lit'); return lit(r.choice([0, n - 1, -1, -n, r.randrange(-n, n)]))
        if t < 0.20:
            self.kinds.add('lit-oob'); return lit(r.choice([n, -n - 1, n + 1]))
        if t < 0.26:
            self.kinds.add('lit-arith')
            k = r.randrange(-n, n); d = r.randint(1, 3)
            return r.choice([('bin', '+', lit(k - d), lit(d)), ('bin', '-', lit(k + d), lit(d)), ('neg', lit(-k)),
                             ('bin', '*', lit(1), lit(k))])
        if t < 0.62 and inr:
            self.kinds.add('var'); return ('var', r.choice(inr))
        if t < 0.86 and known:
            # var +/- literal landing on a boundary at compile time
            x = r.choice(known); tgt = r.choice([0, n - 1, -1, -n, r.randrange(-n, n)])
            d = tgt - self.c[x]
            if abs(d) < 50:
                self.kinds.add('var-arith')
                if d == 0: return ('bin', '*', ('var', x), lit(1)) if r.random() < 0.3 else ('var', x)
                return ('bin', '+', ('var', x), lit(d)) if d > 0 else ('bin', '-', ('var', x), lit(-d))
        if t < 0.90 and self.visible():
            self.kinds.add('var-any'); return ('var', r.choice(self.visible()))
        if t < 0.93:
            self.kinds.add('nested'); return ('rd', a, lit(0))
        self.kinds.add('lit'); return lit(r.randrange(-n, n))

    def track(self, s):
        walk_block(self.arrs, self.c, [s])
        return s

    def stmt(self, depth):
        r = self.r
        t = r.random()
        mut = [x for x in self.visible(True) if x not in self.protected]
        a = r.randrange(self.narr)
        if t < 0.14 or not self.visible():
            e = self.int_expr(); return [self.track(('let', self.fresh(True), e))]
        if t < 0.19:
            e = self.int_expr(); return [self.track(('const', self.fresh(False), e))]
        if t < 0.33 and mut:
            self.kinds.add('reassign'); return [self.track(('asg', r.choice(mut), self.int_expr()))]
        if t < 0.37 and mut:
            self.kinds.add('opassign'); return [self.track(('opasg', r.choice(mut), r.choice('+-*'), lit(abs(self.small()))))]
        if t < 0.40 and mut:
            self.kinds.add('incdec'); return [self.track((r.choice(['incr', 'decr']), r.choice(mut)))]
        if t < 0.58:
            return [self.track(('print', ('rd', a, self.index(a))))]
        if t < 0.62:
            e = self.int_expr()
            if not has_var(e):      # `io::Println(3 + (-1))` trips an unrelated checker quirk (untyped literal arithmetic
                e = lit(abs(self.small()))   # is "not Printable"): print typed expressions or plain literals only
            return [self.track(('print', e))]
        if t < 0.76:
            self.kinds.add('write'); i = self.index(a); return [self.track(('wr', a, i, self.int_expr(1)))]
        if t < 0.80:
            self.kinds.add('opwrite'); i = self.index(a)
            return [self.track(('opwr', a, i, r.choice('+-*'), lit(abs(self.small()))))]
        if t < 0.90 and depth < 2:
            return [self.if_stmt(depth)]
        if depth < 2:
            return self.loop(depth)
        return [self.track(('print', ('rd', a, self.index(a))))]

    def block(self, n, depth):
        out = []
        for _ in range(n):
            out += self.stmt(depth)
        return out

    def sub(self, n, depth):
        self.scope.append([])
        b = self.block(n, depth)
        self.scope.pop()
        return b

    def if_stmt(self, depth):
        r = self.r
        self.kinds.add('branch')
        vs = self.visible()
        e1 = ('var', r.choice(vs)) if vs and r.random() < 0.8 else self.int_expr(1)
        e2 = lit(self.small())
        c = r.choice(['<', '<=', '==', '!=', '>', '>='])
        # the walk visits cond, then-branch, else-branch in source order with one table
        walk_e(self.arrs, self.c, e1)
        th = self.sub(r.randint(1, 3), depth + 1)
        el = self.sub(r.randint(0, 2), depth + 1)
        return ('if', c, e1, e2, th, el)

    def loop(self, depth):
        r = self.r
        self.kinds.add('loop')
        pre = []
        mut = [x for x in self.visible(True) if x not in self.protected]
        if mut and r.random() < 0.35:
            x = r.choice(mut)
            if r.random() < 0.6 or self.c.get(x) is None:
                pre.append(self.track(('asg', x, lit(r.choice([0, 0, 1, -1, -2])))))
        else:
            x = self.fresh(True)
            pre.append(self.track(('let', x, lit(r.choice([0, 0, 0, 1, -1, -2, 2])))))
        start = self.c.get(x)
        if start is None: start = 0
        up = r.random() < 0.7
        trips = r.randint(1, 7)
        step = r.choice([1, 1, 1, 2])
        if up:
            bound = start + trips * step; c = r.choice(['<', '<', '<=', '!='])
            if c == '!=': bound = start + trips * step
            stepst = r.choice([('asg', x, ('bin', '+', ('var', x), lit(step))), ('asg', x, ('bin', '+', ('var', x), lit(step))),
                               ('opasg', x, '+', lit(step))] + ([('incr', x)] if step == 1 else []))
        else:
            bound = start - trips * step; c = r.choice(['>', '>', '>=', '!='])
            stepst = r.choice([('asg', x, ('bin', '-', ('var', x), lit(step))), ('asg', x, ('bin', '-', ('var', x), lit(step))),
                               ('opasg', x, '-', lit(step))] + ([('decr', x)] if step == 1 else []))
        self.protected.add(x)
        self.scope.append([])
        body = []
        if r.random() < 0.3:
            # a per-iteration let/const derived from the counter
            y = self.fresh(r.random() < 0.5)
            body.append(self.track((('let' if self.scope[-1][-1][1] else 'const'), y, r.choice([('var', x), ('bin', '+', ('var', x), lit(1)), ('neg', ('var', x))]))))
        body += self.block(r.randint(1, 3), depth + 1)
        if r.random() < 0.85:
            body.append(self.track(stepst))
        else:   # step first, uses after (index one ahead)
            body.insert(0, self.track(stepst))
        self.scope.pop()
        self.protected.discard(x)
        return pre + [('while', c, ('var', x), lit(bound), body)]

def canon(sc):
    return json.dumps([sc['arrs'], sc['body']], sort_keys=True)

def gen_scenarios(rng, n, max_panics=24):
    g = Gen(rng)
    out = []; seen = set(); tries = 0; dropped = 0
    while len(out) < n and tries < n * 30:
        tries += 1
        sc = g.scenario()
        k = canon(sc)
        if k in seen: continue
        d = py_walk(sc)
        sc['pdiags'] = d
        if not d:
            res = py_ssem(sc)
            if res is None:
                dropped += 1
                continue
            sc['pout'], sc['ppanic'], m = res
            sc['acc'], sc['dyn'], sc['negacc'] = m.acc, m.dyn, m.negacc
        else:
            # keep rejected scenarios to a fifth of the stream
            if sum(1 for s in out if s['pdiags']) > len(out) // 5 + 2: continue
        if not d and sc['ppanic'] and sum(1 for s in out if s.get('ppanic')) > max_panics: continue
        seen.add(k)
        out.append(sc)
    return out, dropped

# ------------------------------------------------------------------ hand-written boundary corpus (always run first)
def corpus():
    V = lambda x: ('var', x)
    P = lambda a, i: ('print', ('rd', a, i))
    A = [[10, 20, 30]]
    dump = [P(0, lit(0)), P(0, lit(1)), P(0, lit(2))]
    cs = []
    # reassigned after the use (the defect repaired by fixes/C04-fixed-array-index.patch)
    cs.append(dict(arrs=A, body=[('let', 0, lit(0)), P(0, V(0)), ('asg', 0, lit(2)), P(0, V(0))] + dump))
    # loop-carried index, in range
    cs.append(dict(arrs=A, body=[('let', 0, lit(0)), ('while', '<', V(0), lit(3), [P(0, V(0)), ('asg', 0, ('bin', '+', V(0), lit(1)))])] + dump))
    # loop-carried index running off the end: must panic after three lines
    cs.append(dict(arrs=A, body=[('let', 0, lit(0)), ('while', '<', V(0), lit(5), [P(0, V(0)), ('asg', 0, ('bin', '+', V(0), lit(1)))])] + dump))
    # negative loop-carried index running below -N
    cs.append(dict(arrs=A, body=[('let', 0, lit(-1)), ('while', '>', V(0), lit(-6), [('wr', 0, V(0), ('bin', '+', ('rd', 0, V(0)), lit(1))), P(0, V(0)), ('asg', 0, ('bin', '-', V(0), lit(1)))])] + dump))
    # branch-dependent index
    cs.append(dict(arrs=A, body=[('let', 0, lit(1)), ('let', 1, lit(0)), ('if', '<', V(0), lit(5), [('asg', 1, lit(2))], [('asg', 1, lit(1))]), ('asg', 0, lit(7)),
                                 ('if', '<', V(0), lit(5), [('asg', 1, lit(0))], []), P(0, V(1)), ('wr', 0, V(1), lit(99))] + dump))
    # writes: literal, negative, variable, compound
    cs.append(dict(arrs=A, body=[('wr', 0, lit(1), lit(99)), ('wr', 0, lit(-1), lit(77)), ('let', 0, lit(0)), ('wr', 0, V(0), lit(55)), ('opwr', 0, lit(-3), '+', lit(1))] + dump))
    # const declared from a let inside a loop
    cs.append(dict(arrs=A, body=[('let', 0, lit(0)), ('while', '<', V(0), lit(3), [('const', 1, V(0)), P(0, V(1)), ('asg', 0, ('bin', '+', V(0), lit(1)))])] + dump))
    # exactly -N and N-1 at run time, then N
    cs.append(dict(arrs=A, body=[('let', 0, lit(-3)), P(0, V(0)), ('asg', 0, lit(2)), P(0, V(0)), ('let', 1, lit(0)),
                                 ('while', '<', V(1), lit(2), [('wr', 0, ('bin', '+', V(1), lit(2)), lit(5)), ('asg', 1, ('bin', '+', V(1), lit(1)))])] + dump))
    # rejected: out of range literal / non-constant index
    cs.append(dict(arrs=A, body=[P(0, lit(3))] + dump))
    cs.append(dict(arrs=A, body=[P(0, lit(-4))] + dump))
    cs.append(dict(arrs=A, body=[('let', 0, lit(1)), ('opasg', 0, '+', lit(1)), P(0, V(0)), ('wr', 0, V(0), lit(1))] + dump))
    cs.append(dict(arrs=[[5]], body=[('let', 0, lit(0)), ('while', '>=', V(0), lit(-2), [('opwr', 0, V(0), '+', lit(1)), P(0, V(0)), ('decr', 0)]), P(0, lit(0))]))
    for sc in cs:
        sc['kinds'] = ['corpus']
        sc['pdiags'] = py_walk(sc)
        if not sc['pdiags']:
            sc['pout'], sc['ppanic'], m = py_ssem(sc)
            sc['acc'], sc['dyn'], sc['negacc'] = m.acc, m.dyn, m.negacc
    return cs

# ------------------------------------------------------------------ running the implementation
CODE = re.compile(r"(error|warning)\[([A-Z]\d+)\]")

def diag_codes(text):
    return [m.group(2) for m in CODE.finditer(text) if m.group(1) == 'error']

def typecheck_all(scs, work, prefix):
    srcs = [r_file([sc]) for sc in scs]
    res = common.batch_typecheck_sources(srcs, work, prefix=prefix)
    for sc, r in zip(scs, res):
        sc['t_ok'] = bool(r['ok'])
        sc['t_panic'] = r['panic']
        sc['t_codes'] = diag_codes(r['out'])
        sc['t_text'] = r['out'][:600]

def run_pty(exe, timeout=20):
    """Run with stdout on a pty (line buffered in libc, so lines printed before a panic are not lost)."""
    m, s = pty.openpty()
    try:
        p = subprocess.Popen([exe], stdout=s, stderr=subprocess.PIPE, stdin=subprocess.DEVNULL)
    finally:
        os.close(s)
    out = b""
    try:
        while True:
            try:
                d = os.read(m, 65536)
            except OSError:
                break
            if not d: break
            out += d
            if len(out) > 1 << 20: p.kill(); break
        try:
            err = p.stderr.read(); p.wait(timeout=timeout)
        except subprocess.TimeoutExpired:
            p.kill(); p.wait(); err = b"TIMEOUT"
    finally:
        os.close(m)
    return p.returncode, out.decode("utf8", "replace").replace("\r\n", "\n"), err.decode("utf8", "replace")

def group(scs, per):
    """pack accepted scenarios into files: scenarios expected to panic go last, one per file"""
    calm = [s for s in scs if not s['ppanic']]
    pan = [s for s in scs if s['ppanic']]
    files = []
    while calm or pan:
        g = calm[:per - 1]; calm = calm[per - 1:]
        if pan: g.append(pan.pop())
        elif calm: g.append(calm.pop(0))
        files.append(g)
    return files

def parse_out(text):
    """-> list of segments (lists of ints / raw strings) separated by SEP lines, and the trailing open segment"""
    segs = []; cur = []
    for ln in text.split("\n"):
        ln = ln.strip()
        if ln == "": continue
        if ln == str(SEP):
            segs.append(cur); cur = []
            continue
        try:
            cur.append(int(ln))
        except ValueError:
            cur.append(ln)
    return segs, cur

KNOWN_BACKEND_CRASH = "rega.c:597"      # open finding of C01 (key crash:qbe-rega-597): QBE register allocation assertion

def execute(files, work, tag):
    """compile each file natively with the real CLI (one `ferret -o` process per file: the vendored QBE keeps global
    state, so code generation never goes through the in-process batch hook), run it on a pty;
    fills sc['ran'], sc['out'], sc['panic'], sc['c_ok'], and sc['c_crash'] when the compiler process died"""
    jobs = []
    for i, g in enumerate(files):
        d = work.sub("%s%d" % (tag, i))
        f = os.path.join(d, "main.fer")
        open(f, "w").write(r_file(g))
        jobs.append((d, f, os.path.join(d, "prog")))
    def runone(i):
        d, f, exe = jobs[i]; g = files[i]
        crc, co, ce = common.ferret(["-o", exe, f], cwd=d, timeout=120)
        if crc != 0 or not os.path.exists(exe):
            text = (co + ce)
            crashed = crc not in (0, 1) or "Assertion" in text or "panic:" in text or "SIGABRT" in text
            for sc in g:
                sc['c_ok'] = False; sc['ran'] = False; sc['c_rc'] = crc
                sc['c_text'] = text[:800]
                sc['c_codes'] = diag_codes(text); sc['c_crash'] = crashed
                sc['c_known_crash'] = crashed and KNOWN_BACKEND_CRASH in text     # site searched in the whole output
            return
        rc, out, err = run_pty(exe)
        segs, tail = parse_out(out)
        panicked = rc != 0
        for j, sc in enumerate(g):
            sc['c_ok'] = True; sc['c_crash'] = False
            sc['file'] = f
            if j < len(segs):
                sc['ran'] = True; sc['out'] = segs[j]; sc['panic'] = False
            elif j == len(segs):
                sc['ran'] = True; sc['out'] = tail; sc['panic'] = panicked
                sc['rc'] = rc; sc['err'] = err[:200]
            else:
                sc['ran'] = False     # not reached (an earlier scenario stopped the process): re-run alone
    common.pmap(runone, list(range(len(files))), workers=4)

def run_alone(sc, work, tag):
    execute([[sc]], work, tag)

# ------------------------------------------------------------------ Coq evaluation
def coq_cases(scs, name):
    """scs: scenarios with observations. Returns {index: verdict bits} for the bad ones, or None if Coq failed."""
    lines = ["From Coq Require Import ZArith List Bool.", "From FV Require Import Models.ConstIdx.",
             "Import ListNotations.", "Open Scope Z_scope.", "Definition cases : list case := ["]
    items = []
    for i, sc in enumerate(scs):
        codes = [int(c[1:]) if re.match(r"^T\d+$", c) else 9999 for c in sc['t_codes']]
        if not sc['t_ok'] and not codes: codes = [9998]
        ran = bool(sc.get('ran'))
        outs = [x if isinstance(x, int) else 987654321 for x in sc.get('out', [])] if ran else []
        items.append("  {| c_id := %d; c_prog := %s; c_diags := %s; c_ran := %s; c_out := %s; c_panic := %s |}" % (
            i, c_prog(sc), c_zlist(codes), common.coq_bool(ran), c_zlist(outs), common.coq_bool(bool(sc.get('panic')))))
    lines.append(";\n".join(items))
    lines.append("].")
    lines.append("Eval vm_compute in (bad_ids cases).")
    ok, out = common.coq_eval(name, "\n".join(lines) + "\n", timeout=900)
    bad = common.parse_bad_ids(out) if ok else None
    if bad is None:
        return None, out[-2000:]
    return {b // 8: b % 8 for b in bad}, ""

# ------------------------------------------------------------------ search: shrink a failing scenario
def spec_fails(sc, work, tag):
    """True iff the scenario is accepted by the compiler and the executable's behaviour differs from the source
    semantics (the property itself fails on this input)."""
    d = py_walk(sc)
    res = py_ssem(sc)
    if res is None: return False
    typecheck_all([sc], work, tag + "t")
    if not sc['t_ok']: return False
    sc['pout'], sc['ppanic'] = res[0], res[1]
    run_alone(sc, work, tag + "x")
    if not sc.get('c_ok') or not sc.get('ran'): return False
    return sc['out'] != sc['pout'] or bool(sc['panic']) != bool(sc['ppanic'])

def shrink(sc, work, budget=25):
    """greedy statement deletion / block flattening while the property still fails"""
    best = dict(arrs=sc['arrs'], body=sc['body'])
    n = [0]
    def variants(ss):
        for i in range(len(ss)):
            yield ss[:i] + ss[i + 1:]
            s = ss[i]
            if s[0] == 'if':
                yield ss[:i] + s[4] + ss[i + 1:]
                yield ss[:i] + s[5] + ss[i + 1:]
                for v in variants(s[4]): yield ss[:i] + [s[:4] + (v, s[5])] + ss[i + 1:]
                for v in variants(s[5]): yield ss[:i] + [s[:5] + (v,)] + ss[i + 1:]
            if s[0] == 'while':
                for v in variants(s[4]): yield ss[:i] + [s[:4] + (v,)] + ss[i + 1:]
    improved = True
    while improved and n[0] < budget:
        improved = False
        for v in variants(best['body']):
            if n[0] >= budget: break
            cand = dict(arrs=best['arrs'], body=v)
            n[0] += 1
            try:
                if spec_fails(cand, work, "sh%d_" % n[0]):
                    best = cand; improved = True
                    break
            except Exception:
                continue
    spec_fails(best, work, "shf_")
    return best

def exprs_of(s):
    k = s[0]
    if k in ('let', 'const', 'asg'): return [s[2]]
    if k == 'opasg': return [s[3]]
    if k == 'print': return [s[1]]
    if k == 'wr': return [s[2], s[3]]
    if k == 'opwr': return [s[2], s[4]]
    if k in ('if', 'while'): return [s[2], s[3]]
    return []

def expr_has_var_read(e):
    k = e[0]
    if k == 'rd': return has_var(e[2]) or expr_has_var_read(e[2])
    if k == 'neg': return expr_has_var_read(e[1])
    if k == 'bin': return expr_has_var_read(e[2]) or expr_has_var_read(e[3])
    return False

def has_var_read(ss):
    for s in ss:
        if any(expr_has_var_read(e) for e in exprs_of(s)): return True
        if s[0] == 'opwr' and has_var(s[2]): return True
        if s[0] == 'if' and (has_var_read(s[4]) or has_var_read(s[5])): return True
        if s[0] == 'while' and has_var_read(s[4]): return True
    return False

def has_write(ss):
    for s in ss:
        if s[0] in ('wr', 'opwr'): return True
        if s[0] == 'if' and (has_write(s[4]) or has_write(s[5])): return True
        if s[0] == 'while' and has_write(s[4]): return True
    return False

WIDE_PROBE = """import "std/io";

fn main() {
    let a: [3]i32 = [10, 20, 30];
    let k := 0;
    let i: i64 = 0;
    while k < 2 {
        a[i] = 7;
        io::Println(k);
        i = i + 4294967297;
        k = k + 1;
    }
    io::Println(99);
}
"""

def wide_probe(run, work):
    """open finding: an i64/u64/i128 index is narrowed to i32 before the bounds check (second iteration: index
    4294967297 is outside [-3, 3) and must panic; observed: element 1 is written)"""
    d = work.sub("wide")
    f = os.path.join(d, "main.fer")
    open(f, "w").write(WIDE_PROBE)
    exe = os.path.join(d, "prog")
    crc, co, ce = common.ferret(["-o", exe, f], cwd=d, timeout=120)
    run.count("wide_index_probe")
    if crc != 0 or not os.path.exists(exe):
        if KNOWN_BACKEND_CRASH in (co + ce):
            run.count("backend_crash_known_C01")
        return      # rejected at compile time: allowed by the property
    rc, out, err = run_pty(exe)
    got = out.split()
    if got == ["0"] and rc != 0:
        return
    run.violation("spec:wide-index-truncated",
                  "i64 index 4294967297 on [3]i32 is narrowed to i32 before the bounds check: expected ['0'] then panic, got %s rc=%s" % (got, rc),
                  {"program": WIDE_PROBE, "expected_stdout": [0], "expected_panic": True, "observed_stdout": got, "observed_rc": rc})

# ------------------------------------------------------------------ typed-index family (reference-free, spec-side oracle)
IDX_TYPES = ["i8", "i16", "i32", "i64", "u8", "u16", "u32", "u64"]
def _trange(t):
    b = int(t[1:])
    return (-(1 << (b - 1)), (1 << (b - 1)) - 1) if t[0] == "i" else (0, (1 << b) - 1)

def typed_index_family(run, work, quick):
    """The index has any integer type; it starts from a literal and is stepped in a loop (the form the constant-index rule admits),
    so its run-time values are not the recorded constant: an in-range value selects exactly element v mod N, every other value of the
    type - also one that exists only because the type is wider than i32 or unsigned (2^31, 2^32 - 1, 2^32 + 1, 2^63 ...) - must end in
    a panic before the access (seed C04e: u32 values >= 2^31 were taken as negative indices). Rejection at compile time is allowed."""
    N = 4
    elems = [10, 20, 30, 40]
    jobs = []
    for t in IDX_TYPES:
        lo, hi = _trange(t)
        sg = lo < 0
        tours = [(2, -1, 8), (1, 1, 5), (-N if sg else 0, 1, 2 * N if sg else N), (0, hi, 2), (1, hi, 2), (N - 1, hi - N + 1, 2)]
        for big in (2 ** 31, 2 ** 32 + 1, 2 ** 32 - 1, 2 ** 63, 2 ** 31 - 1, 255, 256, 65535, 65537):
            if big <= hi: tours.append((run.rng.choice([0, 1, 2]), big, 2))
        if sg: tours += [(-1, lo + 1, 2), (0, lo, 2)]
        if quick and len(tours) > 7: tours = tours[:4] + run.rng.sample(tours[4:], 3)
        for (st, d, it) in tours:
            jobs.append((t, st, d, it, run.rng.random() < 0.4))
    srcs, exps = {}, {}
    for k, (t, st, d, it, write) in enumerate(jobs):
        lo, hi = _trange(t); M = hi - lo + 1
        L = ['import "std/io";', "", "fn main() {", "    let a: [%d]i32 = [%s];" % (N, ", ".join(map(str, elems))),
             "    let i: %s = %d;" % (t, st), "    let k := 0;", "    while k < %d {" % it]
        L += (["        a[i] = 100 + k;", "        io::Println(a[0], a[1], a[2], a[3]);"] if write else ["        io::Println(a[i]);"])
        L += ["        i = i %s %d;" % ("+" if d >= 0 else "-", abs(d)), "        k = k + 1;", "    }", '    io::Println("end");', "}", ""]
        out, a, pan, i = [], list(elems), False, st
        for kk in range(it):
            if not (-N <= i < N): pan = True; break
            if write: a[i % N] = 100 + kk; out.append(" ".join(map(str, a)))
            else: out.append(str(a[i % N]))
            i = (i + d - lo) % M + lo
        srcs[k] = "\n".join(L); exps[k] = (out + ([] if pan else ["end"]), pan)
    def one(k):
        d = work.sub("tix%d" % k)
        f = os.path.join(d, "main.fer")
        open(f, "w").write(srcs[k])
        exe = os.path.join(d, "prog")
        crc, co, ce = common.ferret(["-o", exe, f], cwd=d, timeout=120)
        if crc != 0 or not os.path.exists(exe):
            return ("rejected", (co + ce)[-300:])
        rc, out, err = run_pty(exe)
        return ("ran", rc, out.split("\n")[:-1] if out.endswith("\n") else out.split("\n"))
    res = common.pmap(one, range(len(jobs)), workers=6)
    for k, r in enumerate(res):
        t, st, d, it, write = jobs[k]
        exp_out, exp_panic = exps[k]
        run.case(srcs[k], nontrivial=True)
        if r[0] == "rejected":
            run.count("typed-index:%s:rejected-at-compile-time" % t)
            continue
        run.count("typed-index:%s:%s" % (t, "panic" if exp_panic else "in-range"))
        _, rc, out = r
        if not ((out == exp_out) and ((rc != 0) == exp_panic)):
            run.violation("typed-index:%s:%s" % (t, "panic" if exp_panic else "value"),
                          "[4]i32 %s with an index i: %s = %d stepped by %d: expected stdout %s and %s, observed %s rc=%s"
                          % ("write" if write else "read", t, st, d, exp_out, "a panic" if exp_panic else "normal exit", out[:10], rc),
                          {"program": srcs[k], "expected_stdout": exp_out, "expected_panic": exp_panic, "observed_stdout": out[:20], "observed_rc": rc})

def classify(sc):
    """root-cause class of a property failure (used as the finding key, so that one defect = one key)"""
    exp, got = sc.get('pout', []), sc.get('out', [])
    if sc.get('ppanic') and not sc.get('panic'): return "missing-panic"
    if sc.get('panic') and not sc.get('ppanic'): return "spurious-panic"
    if any(not isinstance(x, int) or (isinstance(x, int) and abs(x) > (1 << 30)) for x in got): return "garbage-element"
    return "wrong-element"

# ------------------------------------------------------------------ main
def main(run):
    work = Work()
    quick = run.tier == "quick"
    n = 330 if quick else 4000
    per = 12 if quick else 16
    run.rule = ("a case is one ArrLang scenario (arrays + statement tree); distinct = sha256 of the canonical AST; "
                "nontrivial = accepted and executing at least one access whose index mentions a variable, or rejected "
                "with a T0009/T0028 diagnostic")
    run.trusted.append("harness/c04.py: renderer ArrLang -> Ferret and ArrLang -> Gallina, reading of diagnostics / stdout / exit status; "
                       "python source-semantics interpreter (second, independent oracle)")
    run.assumptions = ["ArrLang fragment: i32 scalars, [N]i32 arrays (N in 1..6) local to one function; values stay below 2^30 (generator gate)",
                       "native (QBE) target; stdout observed on a pty so that lines printed before a panic are visible",
                       "the model describes the compiler with fixes/C04-fixed-array-index.patch applied"]
    import time
    T = {}; t0 = time.time()
    def lap(name):
        nonlocal t0
        T[name] = round(time.time() - t0, 1); t0 = time.time()
    ok = run.proof("Props/C04.v")
    lap("proof")

    scs = corpus()
    gen, dropped = gen_scenarios(run.rng, n, 24 if quick else 200)
    scs += gen
    run.count("dropped_out_of_envelope", dropped)

    # ---- stage 1: diagnostics of every scenario alone
    shard = 1500
    for o in range(0, len(scs), shard):
        typecheck_all(scs[o:o + shard], work, "t%d_" % o)
    lap("typecheck")
    # ---- stage 2: execute what the compiler accepts (only scenarios the oracle can predict)
    acc = [s for s in scs if s['t_ok'] and not s['pdiags']]
    files = group(acc, per)
    execute(files, work, "x")
    # scenarios not reached / whole-file compile failure: run them alone
    k = 0
    for s in acc:
        if not s.get('ran'):
            k += 1
            run_alone(s, work, "y%d_" % k)
    run.count("rerun_alone", k)

    lap("execute")
    # ---- stage 3: Coq evaluates walk / csem / ssem on the same scenarios
    bad = {}
    cshard = 120 if quick else 500
    coq_broken = None
    offs = list(range(0, len(scs), cshard))
    for o, (b, log) in zip(offs, common.pmap(lambda o: coq_cases(scs[o:o + cshard], "c04_%d" % o), offs, workers=4)):
        if b is None:
            coq_broken = log
            break
        for i, v in b.items():
            bad[o + i] = v
    lap("coq_cases")
    run.extra["stage_seconds"] = T
    # ---- bookkeeping
    for i, sc in enumerate(scs):
        rej = not sc['t_ok']
        nontriv = (rej and any(c in ("T0009", "T0028") for c in sc['t_codes'])) or (not rej and sc.get('dyn', 0) > 0)
        run.case(canon(sc), nontrivial=nontriv,
                 sample={"program": "\n".join(r_fn(sc, "s0")), "diagnostics": sc['t_codes'],
                         "stdout": sc.get('out'), "panic": sc.get('panic')} if i in (1, 2, 14, 15, 40, 41) else None)
        run.count("rejected" if rej else ("accepted_panics" if sc.get('panic') else "accepted_runs"))
        for kd in sc.get('kinds', []): run.count("idx:" + kd)
        if not rej:
            run.count("accesses", sc.get('acc', 0)); run.count("accesses_var_index", sc.get('dyn', 0))
            run.count("accesses_negative", sc.get('negacc', 0))
        for c in sc['t_codes']: run.count("diag:" + c)
        run.count("N:%d" % len(sc['arrs'][0]))
    run.extra["scenarios"] = len(scs)
    run.extra["executables"] = len(files)

    if coq_broken is not None:
        run.violation("coq-eval:C04", "the Coq evaluation of the correspondence cases failed", {"log": coq_broken}, no_input=True)

    # ---- python-side verdicts (independent of Coq) and search
    reported = set()
    def report_spec(i, sc):
        small = shrink(sc, work)
        cls = classify(small)
        key = "spec:" + cls
        if key in reported: return
        reported.add(key)
        src = r_file([small])
        run.violation(key, "accepted program whose executable differs from the source semantics (%s): expected %s%s, got %s%s"
                      % (cls, small.get('pout'), " then panic" if small.get('ppanic') else "", small.get('out'),
                         " then panic" if small.get('panic') else ""),
                      {"program": src, "expected_stdout": small.get('pout'), "expected_panic": small.get('ppanic'),
                       "observed_stdout": small.get('out'), "observed_panic": small.get('panic'),
                       "how": "ferret -o prog main.fer && ./prog   (stdout on a terminal/pty)", "class": cls,
                       "original_case": canon(sc)})
    # ---- known open findings: canonical probes (corpus entries) decide whether a generator region is gated
    def spec_bad(sc):
        if sc['pdiags']: return False
        if not sc['t_ok'] or not sc.get('c_ok') or not sc.get('ran'): return True
        return sc['out'] != sc['pout'] or bool(sc['panic']) != bool(sc['ppanic'])
    def obs(sc):
        if not sc['t_ok']: return "rejected: " + sc['t_text'][:120]
        return "%s%s" % (sc.get('out'), " then panic" if sc.get('panic') else "")
    gate_reads = gate_writes = False
    K1, K2 = "probe:stale-const-index-read", "probe:fixed-array-store-garbage"
    if any(spec_bad(scs[j]) for j in (0, 1, 2)):
        j = [j for j in (0, 1, 2) if spec_bad(scs[j])][0]
        gate_reads = run._match_known(K1) is not None
        run.violation(K1, "canonical probe: fixed-array read with a variable index (reassigned after the use / loop-carried) does not follow "
                      "the run-time value of the index: expected %s%s, got %s" % (scs[j]['pout'], " then panic" if scs[j]['ppanic'] else "", obs(scs[j])),
                      {"program": r_file([scs[j]]), "expected_stdout": scs[j]['pout'], "expected_panic": scs[j]['ppanic'],
                       "observed": obs(scs[j]), "theorem": "C04_stale_const_index_refuted"})
    if spec_bad(scs[5]):
        gate_writes = run._match_known(K2) is not None
        run.violation(K2, "fixed-array write stores the address of a temporary instead of the value (QBE emitArraySet): expected %s, got %s"
                      % (scs[5]['pout'], obs(scs[5])),
                      {"program": r_file([scs[5]]), "expected_stdout": scs[5]['pout'], "observed": obs(scs[5])})
    run.extra["gates"] = [g for g, on in (("reads with a variable index (open finding %s)" % K1, gate_reads),
                                          ("scenarios containing array writes (open finding %s)" % K2, gate_writes),
                                          ("index variables wider than i32 or unsigned are outside ArrLang (i32 scalars); one fixed wide-index probe runs instead", True)) if on]
    wide_probe(run, work)
    typed_index_family(run, work, run.tier == "quick")
    def gated(sc):
        if gate_reads and has_var_read(sc['body']): return True
        if gate_writes and has_write(sc['body']): return True
        return False

    nspec = 0
    for i, sc in enumerate(scs):
        if gated(sc):
            run.count("gated_by_open_finding")
            continue
        # (a) diagnostics: python mirror vs implementation
        want = ["T%04d" % c for c in sc['pdiags']]
        pybad = 0
        if sc['t_codes'] != want or (sc['t_ok'] != (not want)):
            pybad |= 1
        if sc['t_ok'] and not sc['pdiags']:
            if not sc.get('c_ok') or not sc.get('ran'):
                pybad |= 8
            elif sc['out'] != sc['pout'] or bool(sc['panic']) != bool(sc['ppanic']):
                pybad |= 4
        cv = bad.get(i, 0)
        if pybad & 4 or cv & 4:
            nspec += 1
            if nspec <= 4:
                report_spec(i, sc)
            continue
        if pybad & 8 and sc.get('c_known_crash'):
            # QBE register-allocation assertion: the open finding of C01 (crash:qbe-rega-597). No executable exists,
            # so no array access happens: not a C04 verdict. Counted and skipped; any other crash text is reported.
            run.count("backend_crash_known_C01")
            continue
        if pybad & 8:
            key = "compile:" + ",".join(sc.get('c_codes') or ["native-failed"])
            if key not in reported:
                reported.add(key)
                run.violation(key, "program accepted by the type checker but code generation failed%s: %s"
                              % (" (compiler process died rc=%s)" % sc.get('c_rc') if sc.get('c_crash') else "", sc.get('c_text', '')[:300]),
                              {"program": r_file([sc]), "output": sc.get('c_text'), "correspondence": "walk accepted / native build"},
                              no_input=True)
            continue
        if (pybad & 1) or (cv & 1):
            key = "diag:%s->%s" % (",".join(want) or "accept", ",".join(sc['t_codes']) or ("accept" if sc['t_ok'] else "reject"))
            if key not in reported and len(reported) < 12:
                reported.add(key)
                run.violation(key, "diagnostics differ from the port of the consteval walk: port %s, compiler %s %s"
                              % (want or "accepts", sc['t_codes'] or ("accepts" if sc['t_ok'] else "rejects"), sc['t_text'][:160]),
                              {"program": r_file([sc]), "port": want, "compiler": sc['t_codes'], "text": sc['t_text'],
                               "correspondence": "Models/ConstIdx.v walk vs ferret -t", "py_bits": pybad, "coq_bits": cv},
                              no_input=True)
            continue
        if cv & 2:
            key = "csem:port"
            if key not in reported:
                reported.add(key)
                run.violation(key, "the executable agrees with the source semantics but not with the port (csem)",
                              {"program": r_file([sc]), "observed_stdout": sc.get('out'), "correspondence": "Models/ConstIdx.v csem"},
                              no_input=True)
    run.count("spec_failures", nspec)

    if not ok:
        where, log = run.proof_failure
        run.violation("proof:C04:" + where, "Props/C04 no longer checks (%s)" % where,
                      {"theorem_file": "coq/Props/C04.v", "where": where, "log": log}, no_input=True)

def replay(run, path):
    r = json.load(open(path))
    rp = r.get("replay", {})
    print(json.dumps({k: v for k, v in r.items() if k != "replay"}, indent=1))
    src = rp.get("program")
    if not src:
        print(json.dumps(rp, indent=1)); return 0
    work = Work()
    res = common.compile_and_run(src, work, "replay")
    print(src)
    if not res["accepted"]:
        print("compiler: rejected\n" + res["cout"] + res["cerr"]); return 0
    rc, out, err = run_pty(os.path.join(work.dir, "replay", "prog"))
    print("stdout:", out.split()); print("exit:", rc, err.strip())
    print("expected stdout:", rp.get("expected_stdout"), "panic" if rp.get("expected_panic") else "")
    return 0
