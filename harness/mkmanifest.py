#!/usr/bin/env python3
"""Regenerates MANIFEST.json from the table below (python3 harness/mkmanifest.py)."""
import json, os
V = os.path.dirname(os.path.dirname(os.path.abspath(__file__)))
BASE = json.load(open("/root/.vp/BASELINE.json"))["cmd"] if os.path.exists("/root/.vp/BASELINE.json") else "cd /repo && go test -vet=off -count=1 ./..."

CLAIMED = {
 "C11": dict(
   text="Proof: contained_b is proved exact (true iff every value of S is a value of T, dyadic-rational value domains, all 17 types) "
        "and the theorem C11_implicit_lossless is re-checked by coqc against the conversion table regenerated from the working tree "
        "(17x17 ordered pairs x 4 positions + `as`), so the finite pair space is decided exhaustively and the value space universally.",
   note="Trusted: Coq kernel; the black-box table generator (probe programs + reading ferret's verdict, cross-checked against the CLI on a sample); "
        "IEEE parameters of f32..f256. Acceptance = type-check verdict.",
   technique="Coq proof over a decision table regenerated from the compiler (translator) + exhaustive probe",
   ref="DESIGN.md §5 C11"),
}
NOT_YET = {}
props = [json.loads(l) for l in open(os.path.join(V, "properties.jsonl"))]
checks = []
na = []
for p in props:
    pid = p["id"]
    if pid in CLAIMED:
        c = CLAIMED[pid]
        checks.append({
            "property_id": pid,
            "quick_cmd": "./check %s --tier quick" % pid,
            "thorough_cmd": "./check %s --tier thorough" % pid,
            "evidence_file": "/verif/evidence/%s.json" % pid,
            "replay_cmd_template": "./check %s --replay {path}" % pid,
            "engine": "coq+harness",
            "level_claimed": {"category": c.get("category", "proof"), "text": c["text"], "design_ref": c["ref"]},
            "level_note": c["note"],
            "technique": c["technique"],
        })
    else:
        na.append({"property_id": pid, "reason": NOT_YET.get(pid, "check not built yet in this round (work in progress; see DESIGN.md §10 build order) — not a claim that the technique cannot apply")})
m = {
 "version": 1,
 "setup_cmd": "make -C /verif setup",
 "hooks": {
   "guard": "verif",
   "enable": "hook programs under /verif/hooks are compiled into the module virtually: go build -tags verif -overlay <json> ./internal/verifhook/<name> (cwd /repo); no hook source is committed in /repo",
   "baseline_off_cmd": BASE,
   "source_commits": [],
   "add_only": True,
 },
 "engines": [{"name": "coq+harness", "path": "/verif/check", "serves_properties": [c["property_id"] for c in checks],
              "kind_free_text": "Coq 8.16.1 development under /verif/coq (models, proofs, Props/Cxx.v) + python3 harness that rebuilds ferret from /repo, regenerates tables, runs model-vs-implementation correspondence (vm_compute in coqc) and searches for a failing input"}],
 "checks": checks,
 "not_applicable": na,
 "notes": "See DESIGN.md. Genuine defects repaired by 'fix:' commits are listed in known_findings.json.",
}
json.dump(m, open(os.path.join(V, "MANIFEST.json"), "w"), indent=1)
print("claimed:", [c["property_id"] for c in checks])
