#!/usr/bin/env python3
"""Regenerates MANIFEST.json from the table below (python3 harness/mkmanifest.py)."""
import json, os, re
V = os.path.dirname(os.path.dirname(os.path.abspath(__file__)))
BASE = json.load(open("/root/.vp/BASELINE.json"))["cmd"] if os.path.exists("/root/.vp/BASELINE.json") else "cd /repo && go test -vet=off -count=1 ./..."

CLAIMED = {}
FINDINGS = []
FIXED = []
MD = os.path.join(V, "harness", "meta")
for fn in sorted(os.listdir(MD)):
    if re.fullmatch(r"C\d+\.json", fn):
        CLAIMED[fn[:-5]] = json.load(open(os.path.join(MD, fn)))
    elif re.fullmatch(r"C\d+\.findings\.json", fn):
        j = json.load(open(os.path.join(MD, fn)))
        FINDINGS += j.get("findings", [])
        FIXED += j.get("fixed", [])
json.dump({"findings": FINDINGS, "fixed": FIXED}, open(os.path.join(V, "known_findings.json"), "w"), indent=1)
NOT_YET = {}
props = [json.loads(l) for l in open(os.path.join(V, "properties.jsonl"))]
checks = []
na = []
for p in props:
    pid = p["id"]
    if pid in CLAIMED:
        c = CLAIMED[pid]
        checks.append({
            "property_id": pid,
            "quick_cmd": "./check %s --tier quick" % pid,
            "thorough_cmd": "./check %s --tier thorough" % pid,
            "evidence_file": "/verif/evidence/%s.json" % pid,
            "replay_cmd_template": "./check %s --replay {path}" % pid,
            "engine": "coq+harness",
            "level_claimed": {"category": c.get("category", "proof"), "text": c["text"], "design_ref": c["ref"]},
            "level_note": c["note"],
            "technique": c["technique"],
        })
    else:
        na.append({"property_id": pid, "reason": NOT_YET.get(pid, "check not built yet in this round (work in progress; see DESIGN.md §10 build order) — not a claim that the technique cannot apply")})
m = {
 "version": 1,
 "setup_cmd": "make -C /verif setup",
 "hooks": {
   "guard": "verif",
   "enable": "hook programs under /verif/hooks are compiled into the module virtually: go build -tags verif -overlay <json> ./internal/verifhook/<name> (cwd /repo); one hook (wasmenc) additionally maps hooks/wasmenc/export/verif_export.go into package internal/codegen/wasm through the same overlay (//go:build verif wrappers around the unexported encoders); no hook source is committed in /repo",
   "baseline_off_cmd": BASE,
   "source_commits": [],
   "add_only": True,
 },
 "engines": [{"name": "coq+harness", "path": "/verif/check", "serves_properties": [c["property_id"] for c in checks],
              "kind_free_text": "Coq 8.16.1 development under /verif/coq (models, proofs, Props/Cxx.v) + python3 harness that rebuilds ferret from /repo, regenerates tables, runs model-vs-implementation correspondence (vm_compute in coqc) and searches for a failing input"}],
 "checks": checks,
 "not_applicable": na,
 "notes": "See DESIGN.md. Genuine defects repaired by 'fix:' commits are listed in known_findings.json.",
}
json.dump(m, open(os.path.join(V, "MANIFEST.json"), "w"), indent=1)
print("claimed:", [c["property_id"] for c in checks])
