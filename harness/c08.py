"""C08 — dynamic arrays and strings are bounds-checked at run time, not mis-rejected.

Proof stage: Props/C08.v (index algebra for all integer index types and values, refinement of the generated-code
model to the list semantics, static-tracker soundness, delivered lines).
Correspondence: straight-line histories (literal, append, element assignment, indexing with literal / constant /
opaque indices of every integer type, len, string indexing, prints) are rendered to Ferret programs, compiled and
run from the working tree (stdout on a pipe); verdict, stdout lines, panic message and exit status are compared
with Models/Bounds.v `run` (vm_compute inside Coq) and with the reference `spec` (python mirror + Coq).
A large type-check-only stream exercises the static literal-length tracker through the in-process batch hook."""
import os, json, hashlib, re, subprocess, time
import common
from common import Work

ITY = ["i8", "i16", "i32", "i64", "i128", "i256", "u8", "u16", "u32", "u64", "u128", "u256", "byte"]
CTOR = {t: (t.upper() if t != "byte" else "Byte") for t in ITY}
WASM_TY = ["i8", "i16", "i32", "i64", "u8", "u16", "u32", "u64", "byte"]   # runtime.js has no 128/256-bit helpers
PANIC_MSG = "panic: index out of bounds"

def bits(t): return 8 if t == "byte" else int(t[1:])
def signed(t): return t[0] == "i"
def ty_range(t):
    w = bits(t)
    return (-(1 << (w - 1)), (1 << (w - 1)) - 1) if signed(t) else (0, (1 << w) - 1)
def in_ty(t, v):
    lo, hi = ty_range(t); return lo <= v <= hi

# ------------------------------------------------------------------ histories
# op: ("lit", [v..]) ("app", v) ("set", idx, v) ("get", idx) ("len",) ("sget", idx) ("print", v)
#     calls handing the array by plain name to a user function (dynamic arrays are handles):
#     ("cgrow", [v..])  grow_k(a, v..)  the callee appends k >= 0 elements      ("clen",)  show_len(a)  read only
# idx: (kind in {"const","opq"}, type, value, path);  prog: dict(str=<ascii str>, init=[..], ops=[..])
# path: how the container is reached (all reach the SAME array / string; the model ignores it at run time):
#   direct a[i] | val f(a,i) xs: []T | ref f(&a,i) xs: &[]T | mut f(&'a,i) xs: &'[]T | lref {let r := &a; r[i]} |
#   lmut {let r := &'a; r[i]} | fld {let bx := {.Arr = a} as ABox; bx.Arr[i]} | fref f(&bx,i) b: &ABox |
#   fmut f(&'bx,i) b: &'ABox | elem {let aa := [a]; aa[0][i]}
PATHS = ["direct", "val", "ref", "mut", "lref", "lmut", "fld", "fref", "fmut", "elem"]
PCTOR = dict(direct="PDirect", val="PVal", ref="PRef", mut="PMut", lref="PLRef", lmut="PLMut", fld="PFld", fref="PFRef", fmut="PFMut", elem="PElem")
GET_PATHS = PATHS
SET_PATHS = ["direct", "val", "mut", "lmut", "fld", "fmut", "elem"]
SGET_PATHS = ["direct", "val", "ref", "mut", "lref", "lmut", "fld", "fref", "fmut", "elem"]
FN_PATHS = ("val", "ref", "mut", "fref", "fmut")

def ipath(i): return i[3] if len(i) > 3 else "direct"
def idx_ops(p): return [o for o in p["ops"] if o[0] in ("set", "get", "sget")]

def idx_src(i, pre, n, ind="    "):
    kind, t, v = i[0], i[1], i[2]
    if kind == "opq":
        return "opq_%s(%d)" % (t, v)
    if t == "i32" or ipath(i) in FN_PATHS:
        return str(v)            # a literal; at a call site it is typed by the parameter
    name = "k%d" % n
    pre.append("%slet %s: %s = %d;" % (ind, name, t, v))
    return name

def param(kind, path):
    """(parameter declaration, access expression) of a helper reaching the array (kind 'a') or string (kind 's')"""
    ty = "[]i32" if kind == "a" else "str"
    box = "ABox" if kind == "a" else "SBox"
    fld = "Arr" if kind == "a" else "Txt"
    if path == "val": return "xs: %s" % ty, "xs[i]"
    if path == "ref": return "xs: &%s" % ty, "xs[i]"
    if path == "mut": return "xs: &'%s" % ty, "xs[i]"
    if path == "fref": return "b: &%s" % box, "b.%s[i]" % fld
    if path == "fmut": return "b: &'%s" % box, "b.%s[i]" % fld
    raise ValueError(path)

def fused_pairs(p):
    """positions n where ops[n] = append v and ops[n+1] = a direct read with a literal index are written as one expression
    (every second eligible pair, chosen by a hash of the history so that rendering is reproducible)"""
    import zlib
    out = set()
    ops = p["ops"]
    for n in range(len(ops) - 1):
        if ops[n][0] == "app" and ops[n + 1][0] == "get" and ipath(ops[n + 1][1]) == "direct" and ops[n + 1][1][0] != "opq" \
           and (n - 1) not in out and zlib.crc32(repr(ops[:n + 2]).encode()) % 2 == 0:
            out.add(n)
    return out

def render(p):
    used = sorted({o[1][1] for o in idx_ops(p) if o[1][0] == "opq"}, key=ITY.index)
    L = ['import "std/io";', ""]
    paths_a = {ipath(o[1]) for o in p["ops"] if o[0] in ("get", "set")}
    paths_s = {ipath(o[1]) for o in p["ops"] if o[0] == "sget"}
    if paths_a & {"fld", "fref", "fmut"}:
        L += ["type ABox struct {", "    .Arr: []i32", "};", ""]
    if paths_s & {"fld", "fref", "fmut"}:
        L += ["type SBox struct {", "    .Txt: str", "};", ""]
    for t in used:
        L += ["fn opq_%s(x: %s) -> %s {" % (t, t, t), "    return x;", "}", ""]
    for k in sorted({len(o[1]) for o in p["ops"] if o[0] == "cgrow"}):
        L += ["fn grow_%d(%s) {" % (k, ", ".join(["xs: []i32"] + ["v%d: i32" % j for j in range(k)]))]
        L += ["    append(&'xs, v%d);" % j for j in range(k)] + ["}", ""]
    if any(o[0] == "clen" for o in p["ops"]):
        L += ["fn show_len(xs: []i32) {", "    io::Println(len(xs));", "}", ""]
    helpers = sorted({(o[0], ipath(o[1]), o[1][1]) for o in idx_ops(p) if ipath(o[1]) in FN_PATHS},
                     key=lambda h: (h[0], PATHS.index(h[1]), ITY.index(h[2])))
    for opk, path, t in helpers:
        decl, acc = param("s" if opk == "sget" else "a", path)
        if opk == "get":
            L += ["fn ag_%s_%s(%s, i: %s) -> i32 {" % (path, t, decl, t), "    return %s;" % acc, "}", ""]
        elif opk == "set":
            L += ["fn as_%s_%s(%s, i: %s, v: i32) {" % (path, t, decl, t), "    %s = v;" % acc, "}", ""]
        else:
            L += ["fn sg_%s_%s(%s, i: %s) -> i32 {" % (path, t, decl, t), "    let c: i32 = %s as i32;" % acc, "    return c;", "}", ""]
    fused = fused_pairs(p)
    for t in sorted({p["ops"][n + 1][1][1] for n in fused}, key=ITY.index):
        L += ["fn push_at_%s(xs: &'[]i32, v: i32, i: %s) -> %s {" % (t, t, t), "    append(xs, v);", "    return i;", "}", ""]
    L.append("fn main() {")
    L.append('    let s: str = "%s";' % p["str"])
    if p["init"]:
        L.append("    let a := [%s];" % ", ".join(str(v) for v in p["init"]))
    else:
        L.append("    let a: []i32 = [];")
    for n, o in enumerate(p["ops"]):
        pre = []
        if n in fused:
            # `append(&'a, v); print(a[i])` written as ONE expression: the index expression appends to the array it indexes, so
            # the length the access is checked against is the one after the append (seed C08e: length read before the index ran)
            i = p["ops"][n + 1][1]
            L.append("    io::Println(a[push_at_%s(&'a, %d, %d)]);" % (i[1], o[1], i[2]))
            continue
        if n - 1 in fused:
            continue
        if o[0] == "lit":
            L.append("    a = [%s];" % ", ".join(str(v) for v in o[1]))
        elif o[0] == "app":
            L.append("    append(&'a, %d);" % o[1])
        elif o[0] in ("set", "get", "sget"):
            i = o[1]; path = ipath(i); isstr = o[0] == "sget"
            var = "s" if isstr else "a"
            if path == "direct":
                e = idx_src(i, pre, n); L += pre
                if o[0] == "set": L.append("    a[%s] = %d;" % (e, o[2]))
                elif o[0] == "get": L.append("    io::Println(a[%s]);" % e)
                else:
                    L.append("    let c%d: i32 = s[%s] as i32;" % (n, e)); L.append("    io::Println(c%d);" % n)
                continue
            # every other path lives in its own block (borrows and aliases end with it)
            B = ["    {"]
            e = idx_src(i, pre, n, ind="        ")
            box = "{ .%s = %s } as %s" % ("Txt" if isstr else "Arr", var, "SBox" if isstr else "ABox")
            if path in FN_PATHS:
                if path in ("fref", "fmut"):
                    B.append("        let bx := %s;" % box)
                arg = {"val": var, "ref": "&" + var, "mut": "&'" + var, "fref": "&bx", "fmut": "&'bx"}[path]
                fn = {"get": "ag", "set": "as", "sget": "sg"}[o[0]] + "_%s_%s" % (path, i[1])
                if o[0] == "set": B.append("        %s(%s, %s, %d);" % (fn, arg, e, o[2]))
                else: B.append("        io::Println(%s(%s, %s));" % (fn, arg, e))
            else:
                if path == "lref": B.append("        let r := &%s;" % var); acc = "r[%s]"
                elif path == "lmut": B.append("        let r := &'%s;" % var); acc = "r[%s]"
                elif path == "fld": B.append("        let bx := %s;" % box); acc = "bx.%s[%%s]" % ("Txt" if isstr else "Arr")
                elif path == "elem": B.append("        let aa := [%s];" % var); acc = "aa[0][%s]"
                else: raise ValueError(path)
                B += pre
                if o[0] == "set": B.append("        %s = %d;" % (acc % e, o[2]))
                elif o[0] == "get": B.append("        io::Println(%s);" % (acc % e))
                else:
                    B.append("        let c%d: i32 = %s as i32;" % (n, acc % e)); B.append("        io::Println(c%d);" % n)
            B.append("    }")
            L += B
        elif o[0] == "len":
            L.append("    io::Println(len(a));")
        elif o[0] == "print":
            L.append("    io::Println(%d);" % o[1])
        elif o[0] == "cgrow":
            L.append("    grow_%d(%s);" % (len(o[1]), ", ".join(["a"] + [str(v) for v in o[1]])))
        elif o[0] == "clen":
            L.append("    show_len(a);")
    L += ["}", ""]
    return "\n".join(L)

def valid(v, n): return -n <= v < n
def norm(v, n): return v + n if v < 0 else v

def py_spec(p):
    """reference semantics (mirror of Models/Bounds.v spec): (lines, panicked)"""
    l = list(p["init"]); out = []; s = [ord(c) for c in p["str"]]
    for o in p["ops"]:
        if o[0] == "lit": l = list(o[1])
        elif o[0] == "app": l.append(o[1])
        elif o[0] == "cgrow": l.extend(o[1])
        elif o[0] == "set":
            if not valid(o[1][2], len(l)): return out, True
            l[norm(o[1][2], len(l))] = o[2]
        elif o[0] == "get":
            if not valid(o[1][2], len(l)): return out, True
            out.append(l[norm(o[1][2], len(l))])
        elif o[0] in ("len", "clen"): out.append(len(l))
        elif o[0] == "sget":
            if not valid(o[1][2], len(s)): return out, True
            out.append(s[norm(o[1][2], len(s))])
        elif o[0] == "print": out.append(o[1])
    return out, False

def coq_idx(i):
    return "{| ix_kind := %s; ix_ty := %s; ix_val := %s; ix_path := %s |}" % ("KConst" if i[0] == "const" else "KOpaque", CTOR[i[1]], common.coq_z(i[2]), PCTOR[ipath(i)])
def coq_zs(vs): return "[" + "; ".join(common.coq_z(v) for v in vs) + "]"
def coq_op(o):
    if o[0] == "lit": return "OLit %s" % coq_zs(o[1])
    if o[0] == "app": return "OAppend %s" % common.coq_z(o[1])
    if o[0] == "set": return "OSet %s %s" % (coq_idx(o[1]), common.coq_z(o[2]))
    if o[0] == "get": return "OGet %s" % coq_idx(o[1])
    if o[0] == "len": return "OLen"
    if o[0] == "sget": return "OSGet %s" % coq_idx(o[1])
    if o[0] == "cgrow": return "OCallGrow %s" % coq_zs(o[1])
    if o[0] == "clen": return "OCallLen"
    return "OPrint %s" % common.coq_z(o[1])
def coq_prog(p):
    return "{| p_str := %s; p_init := %s; p_ops := [%s] |}" % (coq_zs([ord(c) for c in p["str"]]), coq_zs(p["init"]),
                                                              "; ".join(coq_op(o) for o in p["ops"]))

# ------------------------------------------------------------------ generator

class Gen:
    def __init__(self, rng, types, static_only=False):
        self.r = rng; self.types = types; self.uid = 100; self.static_only = static_only
    def val(self):
        self.uid += 1
        return self.uid if self.r.random() < 0.85 else -self.uid
    def index(self, n, want_valid, pconst, paths=("direct",)):
        r = self.r
        pdirect = 0.7 if self.static_only else 0.45
        path = "direct" if (r.random() < pdirect or len(paths) == 1) else r.choice([q for q in paths if q != "direct"])
        kind = "const" if r.random() < pconst else "opq"
        if want_valid and n > 0:
            v = r.choice([0, n - 1, -1, -n, r.randrange(-n, n)])
        else:
            c = [n, n + 1, n + 2, -n - 1, -n - 2, 2**31 - 1, -2**31, 2**31, -2**31 - 1, 2**32, 2**32 + 1, 2**32 - 1,
                 -2**32 + 1, 2**32 + n - 1, -2**32 - 1, 2**63 - 1, -2**63, 2**64 - 1, 2**64, 2**64 + 1, 255, 256, 65535,
                 -128, 127, 2**32 - n if n else 2**32 - 1, 2**64 - n if n else 2**64 - 2]
            v = r.choice(c[:5]) if r.random() < 0.5 else r.choice(c)
        ts = [t for t in self.types if in_ty(t, v)]
        if not ts:
            v = n; ts = list(self.types)
        t = r.choice(ts) if r.random() < 0.7 else ("i32" if in_ty("i32", v) else r.choice(ts))
        return (kind, t, v, path)
    def prog(self):
        r = self.r
        s = "".join(r.sample("ABCDEFGHJKLMNPQRSTUVWXYZabcdefghjkmnpqrstuvwxyz23456789", r.choice([0, 1, 2, 3, 5, 6, 9, 12])))
        init = [self.val() for _ in range(r.choice([0, 1, 2, 3, 3, 4, 5]))]
        n = len(init); ops = []
        nops = r.randrange(4, 22)
        p_invalid = r.choice([0.0, 0.0, 0.04, 0.10])
        pconst = r.choice([0.0, 0.3, 0.6, 1.0]) if not self.static_only else r.choice([0.6, 1.0])
        burst = 0
        for _ in range(nops):
            x = r.random()
            if burst > 0:
                burst -= 1; ops.append(("app", self.val())); n += 1; continue
            if x < 0.14:
                ops.append(("app", self.val())); n += 1
                if r.random() < 0.25: burst = r.choice([2, 4, 5, 9])     # cross capacities 4 / 8 / 16
            elif x < 0.20:
                y = r.random()
                if y < 0.55:
                    vs = [self.val() for _ in range(r.choice([0, 1, 1, 2, 3, 5]))]; ops.append(("cgrow", vs)); n += len(vs)
                else: ops.append(("clen",))
            elif x < 0.26:
                xs = [self.val() for _ in range(r.choice([0, 1, 2, 3, 4, 5]))]; ops.append(("lit", xs)); n = len(xs)
            elif x < 0.42:
                ops.append(("set", self.index(n, r.random() >= p_invalid, pconst, SET_PATHS), self.val()))
            elif x < 0.74:
                ops.append(("get", self.index(n, r.random() >= p_invalid, pconst, GET_PATHS)))
            elif x < 0.80:
                ops.append(("len",))
            elif x < 0.94:
                ops.append(("sget", self.index(len(s), r.random() >= p_invalid, pconst if not self.static_only else 0.5, SGET_PATHS)))
            else:
                ops.append(("print", self.val()))
        if not any(o[0] in ("get", "sget", "len", "print", "clen") for o in ops):
            ops.append(("get", self.index(n, True, pconst)))
        return dict(str=s, init=init, ops=ops)

# fixed regression histories: the witnesses of the three repaired defects + boundary shapes
def corpus(rng=None, thorough=True):
    O = lambda t, v, path="direct": ("opq", t, v, path)
    C = lambda t, v, path="direct": ("const", t, v, path)
    base = [
        ("panic-flush", dict(str="Hey", init=[10, 20, 30], ops=[("print", 1), ("len",), ("get", O("i32", 3)), ("print", 2)])),
        ("append-len", dict(str="Hey", init=[1, 2, 3], ops=[("app", 4), ("get", C("i32", 3)), ("get", C("i32", -4)), ("set", C("i32", 3), 9), ("get", O("i32", 3))])),
        ("idx-trunc-i64", dict(str="Hey", init=[10, 20, 30], ops=[("print", 5), ("get", O("i64", 2**32))])),
        ("idx-trunc-u32", dict(str="Hey", init=[10, 20, 30], ops=[("print", 5), ("get", O("u32", 2**32 - 1))])),
        ("idx-trunc-u64", dict(str="Hey", init=[10, 20, 30], ops=[("print", 5), ("set", O("u64", 2**64 - 1), 7), ("get", O("i32", 2))])),
        ("idx-trunc-i128", dict(str="Hey", init=[10, 20, 30], ops=[("print", 5), ("get", O("i128", 2**64 + 1))])),
        ("idx-trunc-str", dict(str="Hey", init=[1], ops=[("print", 5), ("sget", O("i64", -2**32 + 1))])),
        ("neg-all", dict(str="Hello", init=[10, 20, 30], ops=[("get", O("i8", -1)), ("get", O("i16", -3)), ("get", O("i64", -2)), ("get", O("i128", -3)),
                                                               ("sget", O("i32", -5)), ("sget", O("i64", -1)), ("get", O("i32", -4))])),
        ("grow-16", dict(str="x", init=[1, 2, 3], ops=[("app", 4), ("app", 5), ("get", O("i32", 4)), ("app", 6), ("app", 7), ("app", 8), ("app", 9), ("get", O("u8", 8)),
                                                        ("app", 10), ("app", 11), ("app", 12), ("app", 13), ("app", 14), ("app", 15), ("app", 16), ("app", 17),
                                                        ("get", C("i32", 16)), ("get", O("i32", -17)), ("set", O("i64", 16), 99), ("get", C("i32", -1)), ("len",), ("get", O("i32", 17))])),
        ("relit", dict(str="x", init=[1, 2, 3, 4, 5], ops=[("lit", [7, 8]), ("get", C("i32", 1)), ("lit", []), ("len",), ("app", 3), ("get", C("i32", 0)), ("get", O("i32", 1))])),
        ("call-grow", dict(str="x", init=[1, 2, 3], ops=[("get", C("i32", 2)), ("cgrow", [40]), ("cgrow", [50]), ("len",), ("get", C("i32", 3)), ("get", C("i32", -5)),
                                                          ("set", C("i32", 4), 51), ("get", C("i32", 4))])),
        ("call-grow0-read", dict(str="x", init=[1, 2, 3], ops=[("cgrow", []), ("clen",), ("get", C("i32", 2)), ("get", O("u8", 1, "val")), ("get", C("i64", -3)), ("set", O("i64", -1, "val"), 9),
                                                                ("get", C("i32", 2)), ("cgrow", [7, 8, 9]), ("get", C("i8", 5)), ("set", C("i32", -6), 4), ("get", O("i32", 0, "val")), ("get", O("i64", 6, "val"))])),
        ("call-set-wide", dict(str="x", init=[1, 2, 3], ops=[("print", 8), ("set", O("i64", 2**32, "val"), 5), ("print", 9)])),
        ("str-const-huge", dict(str="abc", init=[1], ops=[("print", 7), ("sget", C("i32", 2**31 - 1))])),
        ("str-const-huge-i64", dict(str="", init=[1], ops=[("sget", C("i32", 0 - 1)), ("sget", C("i64", 2**31 - 2))])),
        # every access path x first / last / negative / one past (arrays: after an append; strings: long and short)
        ("paths-array-get", dict(str="x", init=[10, 20, 30], ops=[("app", 40)] + [("get", O("i32", v, q)) for q in GET_PATHS for v in (0, 3, -4)] + [("get", C("i32", 3, "lref")), ("get", C("i64", -1, "elem")), ("get", C("i32", 3, "fld"))])),
        ("paths-array-set", dict(str="x", init=[10, 20, 30], ops=[x for k, q in enumerate(SET_PATHS) for x in (("set", O("i64", -1 - (k % 3), q), 500 + k), ("get", C("i32", 2 - (k % 3))))])),
        ("paths-str-long", dict(str="abcdefghi", init=[1], ops=[("sget", O("i32", v, q)) for q in SGET_PATHS for v in (0, 8, -1, -9)] + [("sget", C("i32", 8, "lref")), ("sget", C("i32", -9, "fld"))])),
        ("static-reject", dict(str="x", init=[1, 2, 3], ops=[("print", 1), ("get", C("i32", 3))])),
        ("static-reject-neg", dict(str="x", init=[1, 2, 3], ops=[("set", C("i8", -4), 1)])),
        ("empty", dict(str="", init=[], ops=[("len",), ("sget", O("i32", 0))])),
        ("empty-arr", dict(str="q", init=[], ops=[("len",), ("sget", O("i32", -1)), ("get", O("i32", 0))])),
    ]
    # one out-of-range access per program and per access path (a panic ends the program):
    #   string "ab" read at 2 (one past: an over-read of the NUL if the check used a wrong length), array of 4 read at 4
    NONDIRECT = [q for q in PATHS if q != "direct"]
    str_oob = [("paths-oob-%s" % q, dict(str="ab", init=[10, 20, 30], ops=[("print", 1), ("sget", O("i32", 1, q)), ("print", 2), ("sget", O("i32", 2, q)), ("print", 3)]))
               for q in NONDIRECT]
    arr_oob = [("paths-arr-oob-%s" % q, dict(str="ab", init=[10, 20, 30], ops=[("app", 40), ("print", 1), ("get", O("i32", 3, q)), ("get", O("i32", 4, q)), ("print", 3)]))
               for q in NONDIRECT]
    if not thorough and rng is not None:
        arr_oob = rng.sample(arr_oob, 3)      # quick: all string paths (the fragile lowering), a seeded sample of the array ones
    return base + str_oob + arr_oob

# control-flow probes: outside the quantifier of C08 (straight-line sequences); the tracker is flow-insensitive
FLOW_PROBES = [
    ("if-reassign", """import "std/io";

fn opq(x: i32) -> i32 {
    return x;
}

fn main() {
    let a := [1, 2, 3];
    if opq(0) == 1 {
        a = [9];
    }
    io::Println(a[2]);
}
""", ["3"]),
    ("loop-append", """import "std/io";

fn opq(x: i32) -> i32 {
    return x;
}

fn main() {
    let a := [1, 2, 3];
    let i := opq(0);
    while i < 2 {
        if i == 1 {
            io::Println(a[3]);
        }
        a = [1, 2, 3, 4];
        i = i + 1;
    }
}
""", ["4"]),
]

# ------------------------------------------------------------------ running

def parse_lines(out):
    vals = []
    for ln in out.split("\n"):
        if ln == "": continue
        if not re.fullmatch(r"-?\d+", ln): return None
        vals.append(int(ln))
    return vals

def observe(res):
    """-> dict(acc, lines, panic, abnormal)"""
    if not res["accepted"] or not res.get("exe_exists"):
        diag = res["cout"] + res["cerr"]
        ab = None
        if "T0009" not in diag:
            # not a compile-time index diagnostic: the back end / linker failed (or an unrelated error): the program that
            # C08 says must run (and panic where it goes out of range) was not produced at all
            errs = [ln.strip() for ln in diag.splitlines() if "error" in ln.lower() or "relocation" in ln or "panic" in ln.lower()]
            ab = "build failed without an index-out-of-bounds diagnostic: " + " | ".join(errs[:3])[:300]
        return dict(acc=False, lines=[], panic=False, abnormal=ab, diag=diag)
    lines = parse_lines(res["out"])
    pan = PANIC_MSG in res["err"] or "panic: index out of bounds" in res["err"]
    ab = None
    if lines is None: ab = "stdout is not a sequence of integer lines: %r" % res["out"][:200]
    elif pan and res["rc"] == 0: ab = "panic message with exit status 0"
    elif not pan and res["rc"] != 0: ab = "exit status %s without '%s' (stderr %r)" % (res["rc"], PANIC_MSG, res["err"][:200])
    return dict(acc=True, lines=lines or [], panic=pan, abnormal=ab, diag="")

def judge(p, ob):
    """the property itself, checked on the implementation's observation. Returns None or text."""
    sout, span = py_spec(p)
    if not ob["acc"]:
        if ob["abnormal"]:
            return ob["abnormal"]
        if not span:
            return "mis-rejected: every index of this history is valid for the current length, yet the compiler rejects it"
        return None
    if ob["abnormal"]: return ob["abnormal"]
    if span and not ob["panic"]:
        return "out-of-range index did not panic: stdout %r, expected %r then panic" % (ob["lines"], sout)
    if not span and ob["panic"]:
        return "valid index panicked after stdout %r (expected %r)" % (ob["lines"], sout)
    if ob["lines"] != sout:
        if span and ob["lines"] == sout[:len(ob["lines"])]:
            return "lines printed before the panic were not delivered: got %r, expected %r" % (ob["lines"], sout)
        return "wrong element / output: got %r, expected %r" % (ob["lines"], sout)
    return None

def run_prog(p, work, name, target="native"):
    ob = observe(common.compile_and_run(render(p), work, name, target=target))
    tries = 0
    while not ob["acc"] and ob["abnormal"] and tries < 2:
        # a build that failed without any index diagnostic is re-tried before it is believed: on a loaded machine the
        # compiler / linker process is occasionally killed (empty output); a genuine back-end failure is deterministic
        tries += 1
        time.sleep(1.0 * tries)
        ob = observe(common.compile_and_run(render(p), work, "%s_r%d" % (name, tries), target=target))
    return ob

def shrink(p, work, target, tag, budget=24):
    """greedy op removal keeping the property violated"""
    cur = p; n = 0; changed = True
    while changed and budget > 0:
        changed = False
        for k in range(len(cur["ops"]) - 1, -1, -1):
            if budget <= 0: break
            q = dict(cur, ops=cur["ops"][:k] + cur["ops"][k + 1:])
            budget -= 1; n += 1
            if judge(q, run_prog(q, work, "%s_s%d" % (tag, n), target)):
                cur = q; changed = True
    return cur

RELOC_KEY = "C08:build-failed:reloc-truncated-symbol-offset"

def key_of(p, what):
    if what.startswith("build failed") and "relocation truncated to fit" in what:
        return RELOC_KEY      # one root cause (QBE folds str+huge constant into a pc-relative operand): keyed by cause, not by input
    cat = what.split(":")[0].split(" ")[0]
    return "C08:%s:%s" % (cat, hashlib.sha256(render(p).encode()).hexdigest()[:16])

def report(run, p, ob, what, target, work, tag):
    k0 = key_of(p, what)
    if k0 == RELOC_KEY and run._match_known(k0) is not None:
        run.violation(k0, "[%s] %s" % (target, what), {"program": render(p), "target": target})   # known root cause: no shrinking
        return
    small = shrink(p, work, target, tag)
    ob2 = run_prog(small, work, tag + "_final", target)
    w2 = judge(small, ob2) or what
    sout, span = py_spec(small)
    run.violation(key_of(small, w2), "[%s] %s" % (target, w2),
                  {"program": render(small), "target": target, "history": small,
                   "expected": {"accepted": True if not span else "accepted, or rejected only because it goes out of range",
                                "stdout": sout, "panic": span},
                   "observed": {"accepted": ob2["acc"], "stdout": ob2["lines"], "panic": ob2["panic"], "diag": ob2["diag"][-600:]}})

def coq_check(name, cases, fn="bad_ids"):
    """cases: list of (id, prog, acc, lines, panic) -> list of bad ids (None if coqc failed)"""
    bad = []
    for sh in range(0, len(cases), 600):
        part = cases[sh:sh + 600]
        body = ";\n".join("  (%s, %s, %s, %s, %s)" % (common.coq_z(i), coq_prog(p), common.coq_bool(a), coq_zs(l), common.coq_bool(pn))
                          for i, p, a, l, pn in part)
        v = ("From Coq Require Import ZArith List.\nFrom FV Require Import Models.Bounds.\nImport ListNotations.\nOpen Scope Z_scope.\n"
             "Definition cases : list case := [\n%s\n].\nEval vm_compute in (%s cases).\n" % (body, fn))
        ok, out = common.coq_eval("C08_%s_%d" % (name, sh), v)
        ids = common.parse_bad_ids(out) if ok else None
        if ids is None:
            raise RuntimeError("cases file did not evaluate: " + out[-1500:])
        bad += ids
    return bad

def static_stream(run, work, n):
    g = Gen(run.rng, ITY, static_only=True)
    progs = [g.prog() for _ in range(n)]
    rs = common.batch_typecheck_sources([render(p) for p in progs], work, prefix="st")
    cases = []
    for i, (p, r) in enumerate(zip(progs, rs)):
        acc = bool(r["ok"])
        if r["panic"]:
            run.violation("C08:compiler-crash:" + hashlib.sha256(render(p).encode()).hexdigest()[:16],
                          "compiler crashed on a bounds history: " + r["panic"][:200], {"program": render(p)})
            continue
        sout, span = py_spec(p)
        run.case(("st", render(p)), nontrivial=True)
        run.count("static:" + ("accepted" if acc else "rejected"))
        if not acc and not span:
            ob = dict(acc=False, lines=[], panic=False, abnormal=None, diag=r["out"])
            report(run, p, ob, judge(p, ob), "native", work, "stv%d" % i)
        cases.append((i, p, acc, [], False))
    # model agreement on the verdict only: encode as accepted-with-model-output by asking Coq for the verdict
    bad = coq_check("st", cases, fn="bad_static_ids")
    for i in bad:
        p = progs[i]; acc = cases_acc(cases, i)
        sout, span = py_spec(p)
        if not acc and not span:
            continue   # mis-rejection: already reported above with the concrete program
        run.violation("C08:static-model:" + hashlib.sha256(render(p).encode()).hexdigest()[:16],
                      "static tracker disagrees with Models/Bounds.v static_ops: compiler %s, model %s (the history goes out of range at run time, so C08 itself is not violated by this verdict)"
                      % ("accepts" if acc else "rejects", "rejects" if acc else "accepts"),
                      {"program": render(p), "correspondence": "static_accepts", "observed_accepted": acc}, no_input=True)
    return len(progs)

def cases_acc(cases, i):
    for c in cases:
        if c[0] == i: return c[2]
    return None

def dynamic_stream(run, work, progs, target, tag):
    def one(k):
        return run_prog(progs[k], work, "%s%d" % (tag, k), target)
    obs = common.pmap(one, range(len(progs)), workers=4)
    cases = []; flagged = set()
    for k, (p, ob) in enumerate(zip(progs, obs)):
        sout, span = py_spec(p)
        run.count("fused-append-index-expression", len(fused_pairs(p)))
        run.case((target, render(p)), nontrivial=True,
                 sample={"program": render(p), "target": target, "stdout": ob["lines"], "panic": ob["panic"], "accepted": ob["acc"]} if k < 2 else None)
        run.count("%s:%s" % (target, "rejected" if not ob["acc"] else ("panic" if ob["panic"] else "exit0")))
        for o in p["ops"]:
            if o[0] in ("cgrow", "clen"): run.count("call:" + o[0])
            if o[0] in ("get", "set", "sget"):
                run.count("path:%s:%s" % (o[0], ipath(o[1])))
                run.count("index:%s:%s" % (o[0], o[1][0])); run.count("ity:" + o[1][1])
        w = judge(p, ob)
        if w:
            flagged.add(k)
            report(run, p, ob, w, target, work, "%sv%d" % (tag, k))
        if ob["abnormal"] is None:
            cases.append((k, p, ob["acc"], ob["lines"], ob["panic"]))
    for fn in ("bad_ids", "bad_spec_ids"):
        for k in coq_check(tag, cases, fn=fn):
            if k in flagged: continue
            flagged.add(k)
            p = progs[k]; ob = obs[k]
            run.violation("C08:model:" + hashlib.sha256(render(p).encode()).hexdigest()[:16],
                          "[%s] implementation and Models/Bounds.v %s disagree, but the python oracle sees no violation of C08" % (target, "run" if fn == "bad_ids" else "spec"),
                          {"program": render(p), "observed": {"accepted": ob["acc"], "stdout": ob["lines"], "panic": ob["panic"], "diag": ob["diag"][-600:]},
                           "correspondence": fn}, no_input=True)
    return obs

def flow_probes(run, work):
    for name, src, expect in FLOW_PROBES:
        res = common.compile_and_run(src, work, "flow_" + name)
        run.count("flow-probe")
        if not res["accepted"]:
            run.violation("C08:static-flow:" + name,
                          "valid index rejected because the literal-length tracker is flow-insensitive (%s)" % name,
                          {"program": src, "expected_stdout": expect, "observed": "rejected: " + (res["cout"] + res["cerr"])[-400:]})
        elif res.get("out", "").split() != expect or res.get("rc") != 0:
            run.violation("C08:flow-run:" + name, "control-flow probe %s printed %r rc=%s, expected %r" % (name, res.get("out"), res.get("rc"), expect),
                          {"program": src})

def wasm_ok(p):
    return all(o[1][1] in WASM_TY for o in p["ops"] if o[0] in ("get", "set", "sget"))

def main(run):
    work = Work()
    thorough = run.tier == "thorough"
    run.rule = ("a case is one straight-line history rendered to a Ferret program (literal of length 0-5, appends incl. bursts across "
                "capacities 4/8/16, re-assignment by literal, calls handing the array by name to user functions that append k>=0 elements / only read / "
                "assign or read an element through the parameter, element assignment, indexing through every access path (direct, by-value / & / &' parameter, & / &' local, struct field by value or through a reference, element of an array of containers) with literal/constant/opaque indices of all 13 "
                "integer types at -len-2..len+2 and at 2^31/2^32/2^63/2^64 boundaries, len, string indexing); distinct = hash of program text")
    run.trusted += ["harness/c08.py: renderer of histories to Ferret source, reading of exit status / stdout / stderr, python mirror of the reference (cross-checked against Coq spec on every case)",
                    "libc stdio buffering of a pipe is modelled as an unbounded buffer flushed by exit() and fflush, dropped by abort()"]
    run.assumptions = ["array lengths stay below 2^31 (int32_t length field); element type i32; strings are NUL-free ASCII",
                       "straight-line histories over one array variable and one string (the quantifier of C08); control flow is only probed (FLOW_PROBES)",
                       "wasm: 128/256-bit index types are not generated (runtime.js lacks the bigint helpers)"]
    run.extra["gates"] = ["io::Println(<cast expr>) is avoided (segfaults independently of indexing): bytes are printed via a typed local",
                          "compound element assignment (a[i] += v) on non-i32 elements not generated (QBE type error, unrelated)",
                          "wasm target restricted to <= 64-bit index types"]
    ok = run.proof("Props/C08.v")
    if not ok:
        where, log = run.proof_failure
        run.violation("proof:C08:" + where, "Props/C08 no longer checks (%s)" % where,
                      {"theorem_file": "coq/Props/C08.v", "where": where, "log": log}, no_input=True)

    # 1. fixed corpus, native + wasm
    cp = corpus(run.rng, thorough)
    dynamic_stream(run, work, [p for _, p in cp], "native", "cn")
    dynamic_stream(run, work, [p for n, p in cp if wasm_ok(p) and (thorough or not n.startswith("paths-") or n in ("paths-array-get", "paths-array-set", "paths-str-long", "paths-oob-ref", "paths-oob-lmut", "paths-oob-fref"))], "wasm", "cw")
    flow_probes(run, work)
    # 2. static tracker at volume (type-check only, in-process)
    static_stream(run, work, 3000 if thorough else 300)
    # 3. generated histories, compiled and run
    g = Gen(run.rng, ITY)
    dynamic_stream(run, work, [g.prog() for _ in range(1000 if thorough else 50)], "native", "gn")
    gw = Gen(run.rng, WASM_TY)
    dynamic_stream(run, work, [gw.prog() for _ in range(350 if thorough else 8)], "wasm", "gw")

def replay(run, path):
    r = json.load(open(path))
    rep = r.get("replay", {})
    print(json.dumps(r, indent=1)[:4000])
    if "history" in rep:
        p = rep["history"]
        p["ops"] = [tuple(tuple(x) if isinstance(x, list) and len(x) == 3 and isinstance(x[0], str) else x for x in o) for o in p["ops"]]
        ob = run_prog(p, Work(), "replay", rep.get("target", "native"))
        w = judge(p, ob)
        print("replay verdict:", w or "property holds on this input now")
        return 1 if w else 0
    return 0
