"""C19 — number / byte-literal spellings at a token boundary (stage of harness/c19.py).

Ties the recognisers m_number / m_byte and the ordered table `step` of coq/Models/Trivia.v (about which
coq/Proofs/TriviaNumP.v proves the boundary lemmas and C19_token_boundary_all_kinds) to the REAL lexer at exactly the
places those proofs are about: every spelling of a number / byte literal (each prefix, `_` separators, fraction,
exponent, malformed tails such as `0x`, `1e`, `1_`, `'ab'`, quote-backslash-quote) followed by every kind of trivia
(space, tab, CR, LF, FF, CRLF, line comment, block comment), by the end of the text, and by non-trivia controls
(`/`, `+1`, a quote, a letter, `_`, `.5`, `e5`).
   (T)  model vs implementation: class and byte length of the item the lexer produces at offset 0 (through
        hooks/lexgaps, mode lex) == `step` evaluated by vm_compute on the same bytes (first_bad_ids of Models/TriviaNum.v);
   (P)  the property on the implementation: the item at offset 0 is the same for every trivia kind and at the end of
        the text (C19_number_trivia_indep for every number spelling, C19_byte_boundary for complete byte literals).
"""
import common

NUMS = ["0", "7", "42", "00", "0_0", "1_000", "1__0", "1_", "1_a", "1_.5", "1._5", "9_9.9_9e9_9",
        "0x", "0X", "0x1f", "0X1F", "0x1F_a", "0x_1", "0x1_", "0xg", "0xFFg", "0xx", "0x1.5", "0xe+1", "1x",
        "0o", "0O", "0o17", "0O7_7", "0o8", "0o78", "0o7_", "0ob",
        "0b", "0B", "0b101", "0B1_0", "0b2", "0b12", "0b1_", "0b1e5",
        "1.5", "1.", "1..2", "1.5.6", "1.e5", "1.5e3", "1.5e+3", "1.5E-3", "1.5e", "1.5e+", "1.5_", "1.5_0",
        "1e", "1E", "1e+", "1e-", "1e5", "1E5", "1e+5", "1e-5", "1e5_0", "1e5_", "1e_5", "1e5e5", "1e+-5", "0e0",
        "-3", "-0x1", "-0b1", "-1.5e-3", "-", "-a", "--1", "-.5", ".5", "-0x", "-1_"]
BYTES = [b"'a'", b"' '", b"''", b"'ab'", b"'\\n'", b"'\\''", b"'\\'", b"'\\\\'", b"'\\\\", b"'\\x41'", b"'\\x4'", b"'\\x4g'",
         b"'\\xAf'", b"'\\x'", b"'\\xx'", b"'\\", b"'", b"'a", b"'\"'", b"'/'", b"'\\/'", b"'\\\xc3\xa9'", b"'\xc3\xa9'", b"'\\\n'",
         b"'\\x414'", b"'\\\t'", b"'\\ '"]
TRIVIA = [b" ", b"\t", b"\r", b"\n", b"\x0c", b"\r\n  ", b" \t ", b"// c\n", b"//\n", b"/* c */", b"/**/", b"/* ' */", b"/*1*/"]
CONTROLS = [b"/", b"/ 2", b"+1", b"'", b"x", b"_", b".5", b"e5", b"-1", b"1"]
SUFFIX = b"1;"

def first_item(text, resp):
    """(class, length) of the item at offset 0 as the implementation lexes it; (-1, 0) = unrecognised character,
    (-2, 0) = skipped whitespace; None if the hook failed."""
    import c19
    if resp.get("panic") or resp.get("toks") is None:
        return None
    for t in resp["toks"]:
        if t[4] == 0 and t[0] != "end_of_file":
            return (c19.cls_of(t[0]), t[7] - t[4])
    if text[:1] in (b" ", b"\t", b"\r", b"\n", b"\x0c"):
        return (-2, 0)
    return (-1, 0)

def stage(run, texts=None):
    import c19
    if texts is None:
        texts = c19.Texts(common.Work())
    spell = [s.encode() for s in NUMS] + BYTES
    rows = []                 # (spelling, follower, is_trivia, text)
    for sp in spell:
        rows.append((sp, b"", True, sp))
        for t in TRIVIA:
            rows.append((sp, t, True, sp + t + SUFFIX))
        ctl = CONTROLS if run.tier != "quick" else run.rng.sample(CONTROLS, 3)      # quick tier: a seeded subset
        for t in ctl:
            rows.append((sp, t, False, sp + t))
    resp = c19.run_hook_on(texts, [r[3] for r in rows], "lex")
    obs = {}
    for (sp, t, tr, text) in rows:
        o = first_item(text, resp[text])
        run.count("stream:num-boundary")
        if o is None:
            run.count("num-boundary-lexer-panic")        # totality is C13's property
            continue
        obs[text] = o
        run.case(("numb", text), nontrivial=len(t) > 0)
    # ---- (P) the property on the implementation
    nviol = 0
    for sp in spell:
        base = obs.get(sp)
        if base is None:
            continue
        is_num = sp[:1] != b"'"
        if not is_num and not (base[0] == 2 and base[1] == len(sp)):
            run.count("num-boundary:incomplete-byte-literal (model tie only)")
            continue
        for t in TRIVIA:
            o = obs.get(sp + t + SUFFIX)
            if o is None:
                continue
            run.count("num-boundary:property-checked")
            if o != base and nviol < 3:
                nviol += 1
                c19.report(run, "numtrivia:%s:%s" % (sp.hex(), t.hex()),
                           "the token in front of inserted trivia changes: %r alone lexes as (class %d, %d bytes) but followed by %r as (class %d, %d bytes)"
                           % (sp.decode("utf8", "replace"), base[0], base[1], t.decode(), o[0], o[1]),
                           sp + SUFFIX, len(sp), t, {"theorem": "C19_number_trivia_indep / C19_byte_boundary / C19_token_boundary_all_kinds"})
    # ---- (T) model vs implementation
    cases = [(i, text, obs[text]) for i, (_, _, _, text) in enumerate(rows) if text in obs]
    v = ["From Coq Require Import ZArith List String.", "From FV Require Import Models.Trivia Models.TriviaNum.",
         "Import ListNotations.", "Open Scope Z_scope.", "Open Scope string_scope."]
    names = []
    for k in range(0, len(cases), 100):          # short list literals: Coq's parsing time is superlinear in the length
        names.append("cs%d" % k)
        v.append("Definition cs%d : list (Z * list Z * Z * nat) := [" % k)
        v.append(";\n".join('(%d, unhex "%s", %d, %d%%nat)' % (i, text.hex(), o[0], o[1]) for (i, text, o) in cases[k:k + 100]))
        v.append("].")
    v.append("Eval vm_compute in (first_bad_ids (List.concat [%s]))." % "; ".join(names))
    okc, out = common.coq_eval("C19num", "\n".join(v) + "\n")
    ids = common.parse_bad_ids(out) if okc else None
    if ids is None:
        run.violation("coq-eval:C19num", "the number/byte-literal correspondence file did not evaluate: %s" % out[-600:],
                      {"log": out[-3000:]}, no_input=True)
        return
    run.extra["num_boundary_cases"] = len(cases)
    run.extra["num_boundary_model_mismatches"] = len(ids)
    for i in ids[:3]:
        sp, t, tr, text = rows[i]
        o = obs[text]
        c19.report(run, "model-lexnum:%s" % text.hex()[:80],
                   "lexer model and implementation disagree on the first token of %r: the implementation yields (class %d, %d bytes); "
                   "coq/Models/Trivia.v (m_number / m_byte / step) no longer describes tokenizer.go / numeric.NumberPattern"
                   % (text.decode("utf8", "replace"), o[0], o[1]),
                   sp + (SUFFIX if tr and t else b""), len(sp), t, {"impl_tokens": resp[text].get("toks", [])[:8]})
