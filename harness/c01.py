"""C01 — native executables behave as the reference semantics (FerretCore) prescribes.
Proof stage: Props/C01.v. Tie: generated FerretCore programs are compiled by the freshly built compiler, executed,
and the observed lines/termination are compared with `run` evaluated by vm_compute inside Coq."""
import os, json, hashlib
import common, core
from common import Work

FUEL = 400

def gen_programs(run, n, max_stmts, max_depth, gate_subword, fnlits=True, closures=False):
    progs = []
    feats = {}
    for i in range(n):
        g = core.Gen(run.rng, max_stmts=max_stmts, max_depth=max_depth)
        g.fnlits = fnlits
        g.closures = closures
        p = g.program()
        progs.append(p)
        for k, v in g.features.items():
            feats[k] = feats.get(k, 0) + v
    return progs, feats

def load_corpus(pid="C01"):
    """minimised former failures (ASTs as JSON), run first on every run; never written at run time"""
    d = os.path.join(common.VERIF, "corpus", pid)
    out = []
    if os.path.isdir(d):
        for fn in sorted(os.listdir(d)):
            if fn.endswith(".json"):
                out.append(json.load(open(os.path.join(d, fn)))["prog"])
    return out

_shrink_n = [0]
def failure_class(p, work, target="native"):
    """classify one program against the reference: None = agrees (or outside the defined fragment)"""
    _shrink_n[0] += 1
    r = compile_run_all([p], work, target, prefix="s%d_" % _shrink_n[0])[0]
    if r["panic"]: return "crash:" + (known_crash_key(r["panic"]) or "other")
    if not r["accepted"]:
        # only a program the reference accepts counts (anything broken is rejected too)
        return "rejected" if model_check("c01s%d" % _shrink_n[0], [p], [None]).get(0) != "model-rejects" else None
    if r.get("rc") != 0: return "exit"
    obs = core.parse_output(r["out"]) if r.get("out") is not None else None
    mv = model_check("c01s%d" % _shrink_n[0], [p], [obs]).get(0)
    if mv in ("undef", "fuel", "model-rejects", "stuck"): return None
    return "diff" if (mv == "diff" or obs is None) else None

def shrink_failure(p, work, cls, max_tests=16, target="native"):
    try:
        q = core.shrink(p, lambda c: failure_class(c, work, target) == cls, max_tests=max_tests)
        return core.to_ferret(q)
    except Exception as e:
        return "(shrinking failed: %r)" % (e,)

def compile_run_all(progs, work, target="native", prefix="p"):
    """Compile every program with the real CLI (one process per program: the vendored QBE keeps global state between runs,
    so code generation is never driven in-process), then run each executable. Returns list of dict."""
    def one(i):
        p = progs[i]
        d = work.sub("%s%d" % (prefix, i))
        f = os.path.join(d, "main.fer")
        open(f, "w").write(core.to_ferret(p))
        out = os.path.join(d, "prog" + (".wasm" if target == "wasm" else ""))
        args = (["-target", "wasm"] if target == "wasm" else []) + ["-o", out, f]
        rc, so, se = common.ferret(args, cwd=d, timeout=90)
        text = so + se
        crashed = rc not in (0, 1) or "goroutine " in text or "panic:" in text or "Assertion" in text
        o = dict(accepted=(rc == 0), panic=(("exit status %s: " % rc) + text[:1500] + " ... " + text[-400:]) if crashed else "", diag=text[-3000:],
                 exe=os.path.exists(out))
        if rc == 0 and o["exe"]:
            if target == "native":
                r, xo, xe = common.run_exe(out, timeout=20)
            else:
                r, xo, xe = run_wasm(out)
            o.update(rc=r, out=xo, err=xe)
        return o
    return common.pmap(one, range(len(progs)), workers=6)

def run_wasm(path, timeout=20):
    import subprocess
    try:
        p = subprocess.run(["node", os.path.join(common.VERIF, "js", "run.mjs"), path,
                            os.path.join(common.REPO, "runtime", "wasm", "runtime.js")],
                           stdout=subprocess.PIPE, stderr=subprocess.PIPE, timeout=timeout)
        return p.returncode, p.stdout.decode("utf8", "replace"), p.stderr.decode("utf8", "replace")
    except subprocess.TimeoutExpired:
        return -9, "", "TIMEOUT"

def model_check(name, progs, observed, fuel=FUEL, shard=150):
    """observed[i]: list of lines (python) or None. Returns dict id -> verdict string for every id where the model
    disagrees: 'reject' (check_prog rejects), 'diff' (Done with other lines), 'undef', 'fuel', 'stuck'."""
    bad = {}
    ids = list(range(len(progs)))
    # shards bounded by count and by the size of the terms (large programs make large vm_compute jobs)
    terms = {i: core.to_coq(progs[i]) for i in ids}
    shards, cur, size = [], [], 0
    for i in ids:
        if cur and (len(cur) >= shard or size + len(terms[i]) > 300000):
            shards.append(cur); cur, size = [], 0
        cur.append(i); size += len(terms[i])
    if cur: shards.append(cur)
    def one(k):
        sh = shards[k]
        v = ["From Coq Require Import String ZArith List.", "From FV Require Import Core.Syntax Core.Sem Core.Typing.",
             "Import ListNotations.",
             "Definition structs : structs_t := %s." % core.structs_coq(),
             "Definition verdict (p : prog) (obs : list line) : Z :=",
             "  if negb (accepts structs p) then 1%Z else",
             "  match run structs p %d with" % fuel,
             "  | Done out => if lines_eqb out obs then 0%Z else 2%Z",
             "  | Undefined _ => 3%Z | OutOfFuel => 4%Z | Stuck => 5%Z end.",
             "Definition cases : list (Z * prog * list line) := ["]
        v.append(";\n".join("(%d%%Z, %s,\n   %s)" % (i, terms[i], core.c_lines(observed[i] or [])) for i in sh))
        v.append("].")
        v.append("Definition res := Eval vm_compute in map (fun c => match c with (i, p, o) => (i, verdict p o) end) cases.")
        v.append("Definition bad := Eval vm_compute in map fst (filter (fun c => negb (Z.eqb (snd c) 0%Z)) res).")
        v.append("Definition codes := Eval vm_compute in map snd (filter (fun c => negb (Z.eqb (snd c) 0%Z)) res).")
        v.append("Eval vm_compute in bad.")
        v.append("Eval vm_compute in codes.")
        ok, out = common.coq_eval("%s_%d" % (name, k), "\n".join(v) + "\n", timeout=900)
        if not ok:
            raise RuntimeError("coq_eval failed for %s shard %d:\n%s" % (name, k, out[-3000:]))
        import re
        lists = re.findall(r"=\s*(\[[^\]]*\]|nil)\s*:\s*list Z", out.replace("%Z", ""), re.S)
        if len(lists) != 2:
            raise RuntimeError("unparsable coq output:\n" + out[-2000:])
        ints = [[int(x) for x in re.findall(r"-?\d+", l)] for l in lists]
        return dict(zip(ints[0], ints[1]))
    for r in common.pmap(one, range(len(shards)), workers=min(5, len(shards) or 1)):
        bad.update(r)
    names = {1: "model-rejects", 2: "diff", 3: "undef", 4: "fuel", 5: "stuck"}
    return {i: names[c] for i, c in bad.items()}

def model_output(name, prog, fuel=FUEL):
    """Ask the model what a single program prints (text of the Coq term) — for replays."""
    v = ["From Coq Require Import String ZArith List.", "From FV Require Import Core.Syntax Core.Sem Core.Typing.",
         "Import ListNotations.", "Definition structs : structs_t := %s." % core.structs_coq(),
         "Definition p : prog := %s." % core.to_coq(prog),
         "Eval vm_compute in (check_prog structs p, run structs p %d)." % fuel]
    ok, out = common.coq_eval(name, "\n".join(v) + "\n", timeout=300)
    return out[-3000:]

def known_crash_key(panic_text):
    """call-site key of a compiler crash, for matching open known findings"""
    if panic_text and "rega.c:597" in panic_text:
        return "crash:qbe-rega-597"
    return None

def probe_known(run, work):
    """replay every open known finding of this property: still failing -> KNOWN-FINDING (via run.violation key match)"""
    for k in run.known:
        rp = k.get("replay") or {}
        if k.get("status") == "open" and rp.get("crash_site") and "program" in rp:
            r = common.compile_and_run(rp["program"], work, "known_" + k["id"].replace("-", "_"))
            run.case(rp["program"], True)
            if rp["crash_site"] in (r.get("cerr", "") + r.get("cout", "")):
                run.violation(k["key"], k["what"], {"program": rp["program"], "compiler_output": (r.get("cerr", ""))[-600:]})
            else:
                print("NOTE: known finding %s no longer reproduces (move it to fixed)" % k["id"])
            continue
        if k.get("status") != "open" or "program" not in rp or "expected_stdout" not in rp:
            continue
        r = common.compile_and_run(rp["program"], work, "known_" + k["id"].replace("-", "_"))
        run.case(rp["program"], True)
        if not (r.get("accepted") and r.get("rc") == 0 and r.get("out") == rp["expected_stdout"]):
            run.violation(k["key"], k["what"], {"program": rp["program"], "stdout": r.get("out"), "expected": rp["expected_stdout"]})
        else:
            print("NOTE: known finding %s no longer reproduces (move it to fixed)" % k["id"])

def main(run):
    work = Work()
    quick = run.tier == "quick"
    probe_known(run, work)
    n = 160 if quick else 3000
    import isel
    run.extra["isel_tables"] = isel.gen_tables()
    ok = run.proof("Props/C01.v", extra_targets=["Core/Typing.vo"])
    progs, feats = gen_programs(run, n, 30 if quick else 60, 3 if quick else 5, False, closures=True)
    for _ in range(2 if quick else 20):      # long functions: > 100 basic blocks, register pressure, spills across loops
        g = core.Gen(run.rng, max_stmts=140, max_depth=2)
        g.long_main = True
        progs.append(g.program())
    # source-level corpus for the features of the core language outside FerretCore (for-in over arrays, nested closures in their
    # plain syntax, results with catch, variadics): hand-checked expected output, compared exactly
    sdir = os.path.join(common.VERIF, "corpus", "C01src")
    for fn in sorted(os.listdir(sdir)) if os.path.isdir(sdir) else []:
        if not fn.endswith(".fer"): continue
        src = open(os.path.join(sdir, fn)).read()
        exp = open(os.path.join(sdir, fn[:-4] + ".expected")).read()
        r = common.compile_and_run(src, work, "src_" + fn[:-4].replace("-", "_"))
        run.case(src, nontrivial=True); run.count("source-corpus")
        if not r.get("accepted"):
            run.violation("source-corpus:%s:rejected" % fn, "the core-language program corpus/C01src/%s is rejected: %s" % (fn, (r.get("cout", "") + r.get("cerr", ""))[-400:]),
                          {"program": src, "expected_stdout": exp})
        elif r.get("rc") != 0 or r.get("out") != exp:
            run.violation("source-corpus:%s" % fn, "corpus/C01src/%s: expected stdout %r and exit 0, observed %r rc=%s" % (fn, exp[:200], (r.get("out") or "")[:200], r.get("rc")),
                          {"program": src, "expected_stdout": exp, "stdout": r.get("out"), "rc": r.get("rc")})
    corpus = load_corpus()
    run.extra["corpus_programs"] = len(corpus)
    progs = corpus + progs
    results = compile_run_all(progs, work)
    nshrunk = [0]
    def shrunk(p, cls):
        if nshrunk[0] >= 1: return None      # one shrunk replay per run: each candidate costs a compile, a run and a coqc evaluation
        nshrunk[0] += 1
        return shrink_failure(p, work, cls)
    observed = []
    for i, (p, r) in enumerate(zip(progs, results)):
        src = core.to_ferret(p)
        run.case(src, nontrivial=True, sample={"program": src, "stdout": r.get("out", "")[:200]} if i < 2 else None)
        observed.append(core.parse_output(r["out"]) if r.get("rc") == 0 and r.get("out") is not None else None)
    bad = model_check("c01", progs, observed)
    for k, v in feats.items():
        run.dist[k] = v
    run.rule = ("type-directed random FerretCore programs (ints of 8 widths, bool, by-value structs with integer fields, methods with value receivers, functions, recursion, while, ranges with inclusive bounds and steps, match, short-circuit, casts); "
                "distinct = distinct source text; every program contains arithmetic and prints, so all are non-trivial")
    nskip = 0
    for i, (p, r) in enumerate(zip(progs, results)):
        mv = bad.get(i)
        src = core.to_ferret(p)
        if mv in ("undef", "fuel"):
            nskip += 1
            continue
        if mv in ("model-rejects", "stuck"):
            raise RuntimeError("generator/model inconsistency (%s) on program:\n%s" % (mv, src))
        key = "prog:" + hashlib.sha256(src.encode()).hexdigest()[:16]
        if r["panic"]:
            kk = known_crash_key(r["panic"])
            run.violation(kk or key, "compiler crashed on a reference-accepted core program",
                          {"program": src, "ast": p, "panic": r["panic"][:2000], "shrunk_program": None if kk else shrunk(p, "crash:other")})
        elif not r["accepted"]:
            run.violation(key, "reference-accepted core program rejected by the compiler",
                          {"program": src, "ast": p, "diagnostics": r["diag"][:2000], "shrunk_program": shrunk(p, "rejected")})
        elif r.get("rc") != 0:
            run.violation(key, "executable of a terminating, panic-free program exited with status %s" % r.get("rc"),
                          {"program": src, "ast": p, "stdout": r.get("out"), "stderr": r.get("err"), "reference": model_output("c01_replay", p),
                           "shrunk_program": shrunk(p, "exit")})
        elif mv == "diff" or observed[i] is None:
            run.violation(key, "executable output differs from the reference semantics",
                          {"program": src, "ast": p, "stdout": r.get("out"), "reference": model_output("c01_replay", p),
                           "shrunk_program": shrunk(p, "diff")})
    run.extra["skipped_undefined_or_fuel"] = nskip
    if not ok:
        where, log = run.proof_failure
        found = False
        try:
            for w in isel.search("qbe"):
                found = True
                run.violation("isel:qbe:%s" % w.get("key"), "QBE instruction selection for %s does not implement the reference semantics (operands %s: expected %s, machine result %s)"
                              % (w.get("key"), w.get("operands"), w.get("expected"), w.get("got")), w, no_input=(w.get("operands") is None))
        except Exception as e:
            log += "\n(isel.search failed: %r)" % (e,)
        if not found:
            run.violation("proof:C01:" + where, "Props/C01 no longer checks (%s)" % where, {"where": where, "log": log}, no_input=True)

def setup():
    import isel
    isel.gen_tables()

def replay(run, path):
    """re-run a recorded violation against the current tree: the program (AST in the replay file) is compiled, executed and
    compared with the reference again; exit 1 while it still fails"""
    d = json.load(open(path))
    rp = d.get("replay", d)
    ast = rp.get("ast")
    if ast is None:
        print(json.dumps(d, indent=1)[:6000])
        print("(no AST recorded in this replay file: nothing to re-run)")
        return 0
    work = Work()
    cls = failure_class(ast, work)
    print(core.to_ferret(ast))
    print("reference:", model_output("c01_replay", ast)[-1500:])
    if cls is None:
        print("REPLAY: executable and reference agree on the current tree")
        return 0
    print("VIOLATION property=C01 replay=%s still fails on the current tree (%s)" % (path, cls))
    return 1
