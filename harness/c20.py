"""C20 — TOML configuration survives a write/parse round trip.

Port model coq/Models/Toml.v (writer + reader of /repo/toml, float formatting/parsing abstract) with the theorems of
coq/Props/C20.v, tied to the working tree on every run:
  * W-cases: the file written by WriteTOMLFile (real code, hooks/tomldrv) must be byte-identical to the model's
    `write` on the same table (in the key order the Go map iteration happened to use), comments included;
  * P-cases: ParseTOMLFile on (a) those files, (b) decorated variants (blank lines, comment lines, CRLF, inline comments),
    (c) a malformed stream (token soup, random bytes, mutated writer output) must return exactly what the model's
    `parse_file` returns (data compared as maps, error kind);
  * spec-side oracles evaluated on the implementation alone: ParseTOMLFile(WriteTOMLFile(d)) == d on the writable domain,
    decorated files parse to the same data, no panic on any content;
  * the float hypotheses H1-H3 of the theorems are checked with strconv on every generated float.
ParseFloat / FormatFloat enter the model as finite tables computed by strconv itself (pass 1 asks the model which texts
it consults ParseFloat on)."""
import os, json, hashlib, subprocess, tempfile, shutil, re, struct, time
from concurrent.futures import ThreadPoolExecutor
import common
from common import VERIF, CACHE, sh, goenv, flock

SECTIONS = [b"default", b"compiler", b"build", b"cache", b"external", b"neighbors", b"dependencies"]
GO_SPACES = ["\t", "\n", "\v", "\f", "\r", " ", "\u0085", "\u00a0", "\u1680", "\u2000", "\u2003", "\u200a", "\u2028",
             "\u2029", "\u202f", "\u205f", "\u3000"]
EMPTY_DEFAULT_KEY = "rt:empty-default-table"

# ------------------------------------------------------------------ build (own cache: only /repo/toml matters)

def _repo():
    return common.REPO

def build_tomldrv():
    """hooks/tomldrv as a module with `replace compiler => <repo>`; cached by the content of <repo>/toml, go.mod and
    the hook source (common.build_gomod would first build the whole compiler, which C20 does not need)."""
    repo = _repo()
    h = hashlib.sha256()
    files = [os.path.join(repo, "go.mod")]
    td = os.path.join(repo, "toml")
    files += sorted(os.path.join(td, f) for f in os.listdir(td) if f.endswith(".go") and not f.endswith("_test.go"))
    hd = os.path.join(VERIF, "hooks", "tomldrv")
    files += sorted(os.path.join(hd, f) for f in os.listdir(hd))
    for f in files:
        h.update(os.path.relpath(f, "/").encode() if not f.startswith(repo) else os.path.relpath(f, repo).encode())
        h.update(b"\0"); h.update(open(f, "rb").read())
    hh = h.hexdigest()[:24]
    base = os.path.join(CACHE, "c20")
    out = os.path.join(base, hh, "tomldrv")
    with flock("c20_tomldrv"):
        if os.path.exists(out):
            os.utime(os.path.dirname(out))
            return out, hh
        os.makedirs(os.path.dirname(out), exist_ok=True)
        scratch = tempfile.mkdtemp(prefix="fv_c20mod_")
        try:
            for fn in os.listdir(hd):
                shutil.copy(os.path.join(hd, fn), scratch)
            gm = open(os.path.join(repo, "go.mod")).read()
            gover = re.search(r"^go\s+(\S+)", gm, re.M).group(1)
            open(os.path.join(scratch, "go.mod"), "w").write(
                "module verifhook\n\ngo %s\n\nrequire compiler v0.0.0\n\nreplace compiler => %s\n" % (gover, repo))
            if os.path.exists(os.path.join(repo, "go.sum")):
                shutil.copy(os.path.join(repo, "go.sum"), scratch)
            sh(["go", "build", "-o", out + ".tmp", "."], cwd=scratch, env=goenv(), timeout=900, check=True)
            os.rename(out + ".tmp", out)
        finally:
            shutil.rmtree(scratch, ignore_errors=True)
        # keep the 4 most recent builds
        ents = sorted((os.path.join(base, e) for e in os.listdir(base)), key=os.path.getmtime, reverse=True)
        for p in ents[4:]:
            shutil.rmtree(p, ignore_errors=True)
    return out, hh

def drv(exe, reqs, timeout=600):
    """one driver process, one JSON line per request; returns {id: answer}"""
    inp = "".join(json.dumps(r) + "\n" for r in reqs).encode()
    p = subprocess.run([exe], input=inp, stdout=subprocess.PIPE, stderr=subprocess.PIPE, timeout=timeout)
    res = {}
    for line in p.stdout.decode().splitlines():
        j = json.loads(line)
        res[j["id"]] = j
    if p.returncode != 0 or len(res) != len(reqs):
        missing = [r for r in reqs if r["id"] not in res]
        return res, {"rc": p.returncode, "stderr": p.stderr.decode("utf8", "replace")[-2000:],
                     "first_unanswered": missing[0] if missing else None}
    return res, None

# ------------------------------------------------------------------ values

def f2bits(x):
    return struct.unpack("<Q", struct.pack("<d", x))[0]

def bits2f(u):
    return struct.unpack("<d", struct.pack("<Q", u))[0]

def enc_val(v):
    t, x = v
    if t == "s": return ["s", x.hex()]
    if t == "b": return ["b", x]
    if t == "i": return ["i", str(x)]
    if t == "f": return ["f", "%016x" % x]
    raise ValueError(v)

def dec_val(a):
    t, x = a[0], a[1]
    if t == "s": return ("s", bytes.fromhex(x))
    if t == "b": return ("b", x)
    if t == "i": return ("i", int(x))
    if t == "f": return ("f", int(x, 16))
    return ("?", x)

def dec_res(res):
    """driver parse result -> ('ok', {sec: {key: val}}) | ('err', kind) | ('panic', msg)"""
    if res["st"] == "ok":
        return ("ok", {bytes.fromhex(s): {bytes.fromhex(k): dec_val(v) for k, v in t.items()} for s, t in res["data"].items()})
    if res["st"] == "err":
        return ("err", res["kind"], bytes.fromhex(res["msg"]).decode("utf8", "replace"))
    return ("panic", res["msg"])

def data_dict(d):
    return {s: dict(t) for s, t in d}

def show_val(v):
    t, x = v
    if t == "s": return {"string": x.decode("utf8", "replace"), "hex": x.hex()} if len(x) < 200 else {"string_len": len(x), "head_hex": x[:40].hex(), "byte": x[:1].hex()}
    if t == "b": return {"bool": x}
    if t == "i": return {"int": str(x)}
    if t == "f": return {"float64": repr(bits2f(x)), "bits": "%016x" % x}
    return {"unknown": str(x)}

def show_data(dd):
    return {s.decode("utf8", "replace"): {k.decode("utf8", "replace"): show_val(v) for k, v in t.items()} for s, t in dd.items()}

# ------------------------------------------------------------------ generators

KEY_FIRST = [c for c in range(33, 127) if c not in (ord("="), ord("#"), ord("["))]
KEY_REST = [c for c in range(33, 127) if c != ord("=")]
NICE_KEYS = [b"name", b"version", b"opt-level", b"debug", b"path", b"a.b", b"x_1", b"K", b"0", b"true", b"cache-dir",
             b"remote", b"entry", b"-", b"_", b"a", b"b", b"c", b"timeout", b"ratio"]

def gen_key(rng):
    r = rng.random()
    if r < 0.6:
        return rng.choice(NICE_KEYS)
    if r < 0.8:
        n = rng.randint(1, 8)
        return bytes(rng.choice(b"abcdefghijklmnopqrstuvwxyzABCXYZ0123456789_-.") for _ in range(n))
    n = rng.randint(1, 6)
    return bytes([rng.choice(KEY_FIRST)] + [rng.choice(KEY_REST) for _ in range(n - 1)])

STR_ATOMS = ["a", "b", "z", "A", "0", "1", "9", " ", "  ", "\t", "#", " # ", "=", "[", "]", "[x]", "'", ".", "-", "+", "_",
             "true", "false", "True", "e", "E", "nan", "inf", "0x", "/", ":", ",", "é", "ß", "\u00a0", "\u0085", "\u2028",
             "\u3000", "\u2003", "€", "日本", "😀", "\ufffd", "\x0b", "\x0c", "\x00", "\x7f", "\r"]
STR_WHOLE = ["", " ", "true ", " false", "TRUE", "True", "1", "-1", "+5", "1.5", "3.0", "1e5", "nan", "inf", "-Inf",
             "0x1p-2", "1_000", "9223372036854775808", "#", "# not a comment", "a # b", "[build]", "[", "]", "=", "a = b",
             "\u00a0x\u00a0", " lead", "trail ", "\ttab\t", "x\ry", "\r", "tru", "truee", "falsey", "'q'", "~", "C:/x/y",
             "https://example.com/a?b=c#frag", "1.0.0", ">=1.2, <2", "\u2028", "\u0085"]

def gen_str(rng):
    r = rng.random()
    if r < 0.35:
        s = rng.choice(STR_WHOLE)
    else:
        s = "".join(rng.choice(STR_ATOMS) for _ in range(rng.randint(1, 7)))
    b = s.encode("utf8")
    if b in (b"true", b"false"):
        b += b"!"
    return b

INT_EDGES = [0, 1, -1, 7, 10, 42, 99, 100, -100, 2**31 - 1, 2**31, -2**31, 2**32, 10**17, 10**18 - 1, 10**18, -10**18,
             2**63 - 1, -2**63, -2**63 + 1, 2**62, 123456789012345678, 999999999999999999, 1000000000000000000]
FLOAT_EDGES = [0.0, -0.0, 1.0, -1.0, 3.0, 0.5, 1.5, -2.25, 0.1, 0.2, 1e-7, 1e15, 1e16, 1e21, 1e22, 1e23, 2.0**53, 2.0**53 + 2,
               2.0**63, -2.0**63, 2.0**64, 9.223372036854775e18, 1e100, 1.7976931348623157e308, -1.7976931348623157e308,
               5e-324, 2.2250738585072014e-308, 2.225073858507201e-308, 3.141592653589793, 1 / 3, 123456.789, 1e-5,
               100.0, 1234567.0, 0.30000000000000004, 4.35, 1e6, 65536.0, 4294967296.0, 9007199254740993.0]

def gen_float_bits(rng):
    r = rng.random()
    if r < 0.5:
        return f2bits(rng.choice(FLOAT_EDGES))
    if r < 0.65:
        return f2bits(float(rng.randint(-10**6, 10**6)))                 # integral
    if r < 0.8:
        return f2bits(rng.randint(-10**6, 10**6) / rng.choice([2, 4, 8, 10, 100, 1000, 3, 7]))
    while True:                                                          # random bit pattern, finite
        u = rng.getrandbits(64)
        if (u >> 52) & 0x7ff != 0x7ff:
            return u

def gen_val(rng):
    r = rng.random()
    if r < 0.4: return ("s", gen_str(rng))
    if r < 0.5: return ("b", rng.random() < 0.5)
    if r < 0.7:
        q = rng.random()
        if q < 0.5: return ("i", rng.choice(INT_EDGES))
        if q < 0.8: return ("i", rng.randint(-10**6, 10**6))
        return ("i", rng.randint(-2**63, 2**63 - 1))
    return ("f", gen_float_bits(rng))

CMT_ATOMS = ["note", "x", " ", "#", "\"", "\\", "]", "[", "=", "é", "\u2028", "\r", "'", "TODO: fix", "  ", "\t", "\"q\""]

def gen_comment(rng):
    return "".join(rng.choice(CMT_ATOMS) for _ in range(rng.randint(0, 5))).encode("utf8")

def gen_table(rng, allow_empty):
    n = rng.choice([0, 1, 1, 2, 2, 3, 4, 6]) if allow_empty else rng.choice([1, 1, 2, 2, 3, 4, 6])
    t = {}
    for _ in range(n):
        t[gen_key(rng)] = gen_val(rng)
    return list(t.items())

def gen_data(rng):
    """a table set inside the writable domain W. Gate (open finding F-C20-empty-default): `default` is never empty."""
    r = rng.random()
    if r < 0.25: secs = [b"default"]
    elif r < 0.35: secs = list(SECTIONS)
    else:
        secs = [s for s in SECTIONS if rng.random() < 0.4] or [rng.choice(SECTIONS)]
    rng.shuffle(secs)
    d = [(s, gen_table(rng, allow_empty=(s != b"default"))) for s in secs]
    cm = {}
    if rng.random() < 0.5:
        for s, t in d:
            for k, _ in t:
                if rng.random() < 0.5:
                    cm.setdefault(s, {})[k] = gen_comment(rng)
        if rng.random() < 0.2:
            cm.setdefault(rng.choice(SECTIONS), {})[b"absent-key"] = b"unused"
    return d, cm

def fixed_rt_cases():
    """boundary cases replayed on every run (the region the property is about)"""
    L = []
    one = lambda v, k=b"k", s=b"default": ([(s, [(k, v)])], {})
    for x in FLOAT_EDGES:
        L.append(one(("f", f2bits(x))))
    for i in INT_EDGES:
        L.append(one(("i", i)))
    for s in STR_WHOLE:
        b = s.encode()
        if b not in (b"true", b"false"):
            L.append(one(("s", b)))
            L.append(([(b"build", [(b"k", ("s", b))])], {b"build": {b"k": b"c # \"d\" ]"}}))
    L.append(one(("b", True))); L.append(one(("b", False)))
    # long lines: 64 KiB is the default bufio.Scanner token limit
    for n in (65520, 65529, 65530, 65531, 65536, 70000):
        L.append(one(("s", b"a" * n)))
    L.append(([(b"cache", [(b"k", ("s", b"a" * 66000)), (b"after", ("i", 1))]), (b"build", [])], {}))
    L.append(([(s, []) for s in SECTIONS if s != b"default"], {}))
    L.append(([(s, [(b"k", ("i", j))]) for j, s in enumerate(SECTIONS)], {}))
    return L

TOK = ["a", "key", "k1", " ", "  ", "\t", "=", "=", " = ", "\"", "\"", "\\", "\\\"", "#", " # ", "[", "]", "[s]", "[ s ]", "[]",
       "[default]", "[build]", "true", "false", "True", "0", "1", "42", "-7", "+5", "-", "+", "1.5", "3.0", ".5", "5.", "1e5",
       "1E-3", "nan", "NaN", "inf", "-Inf", "+Infinity", "0x1p-2", "0x10", "1_000", "1__0", "9223372036854775807",
       "9223372036854775808", "-9223372036854775808", "-9223372036854775809", "99999999999999999999", "1e999", "007", "0b1",
       "\r", "\u00a0", "\u0085", "\u2028", "\u3000", "\u1680", "\u205f", "é", "😀", "\x0b", "\x0c", "\x00", "'", "x y", "\"v\"",
       "\"a # b\"", "\"\"", "\"\"\""]
BAD_BYTES = [b"\xff", b"\xc2", b"\xe2\x80", b"\x80", b"\xc0\xaf", b"\xed\xa0\x80", b"\xf4\x90\x80\x80", b"\xe2", b"\xf0\x9f\x98",
             b"\xc2\x85", b"\xc2\xa0", b"\xe2\x80\x8b", b"\xef\xbf\xbd", b"\xe1\x9a\x80", b"\xe2\x81\x9f", b"\xe3\x80\x80",
             b"\xe2\x80\xa8", b"\xe2\x80\xaf", b"\xe2\x80\x8a", b"\xc2\x86", b"\x85", b"\xa0", b"\xe0\x9f\xbf", b"\xf0\x8f\xbf\xbf"]

def gen_line(rng):
    n = rng.randint(0, 8)
    parts = []
    for _ in range(n):
        if rng.random() < 0.12:
            parts.append(rng.choice(BAD_BYTES))
        else:
            parts.append(rng.choice(TOK).encode("utf8"))
    return b"".join(parts)

def gen_kvline(rng):
    """mostly well-formed `key = value` with odd values (exercise parseValue / stripInlineComment)"""
    k = gen_key(rng) if rng.random() < 0.8 else gen_line(rng).replace(b"\n", b"")
    v = gen_line(rng) if rng.random() < 0.7 else rng.choice(TOK).encode()
    sp = lambda: rng.choice([b"", b" ", b"  ", b"\t", "\u00a0".encode(), b" \t "])
    tail = b"" if rng.random() < 0.6 else sp() + b"#" + gen_line(rng)
    return sp() + k + sp() + b"=" + sp() + v + tail + sp()

def gen_file(rng):
    r = rng.random()
    if r < 0.12:
        return bytes(rng.getrandbits(8) for _ in range(rng.randint(0, 60)))
    if r < 0.2:
        alpha = b"=\"\\#[] \n\r\tab1.-+e" + b"\xc2\x85\xa0\xe2\x80\xff"
        return bytes(rng.choice(alpha) for _ in range(rng.randint(0, 50)))
    lines = []
    for _ in range(rng.randint(0, 7)):
        q = rng.random()
        if q < 0.55: lines.append(gen_kvline(rng))
        elif q < 0.7: lines.append(rng.choice([b"[build]", b"[ cache ]", b"[]", b"[default]", b"[a]b]", b"[x", b"x]", b" [s] ", b"[s] # c", b"[\xc2\xa0s\xc2\xa0]"]))
        elif q < 0.8: lines.append(rng.choice([b"", b"   ", b"# c", b"  # c = 1", b"\t", b"\xc2\xa0", b"\xe2\x80\x83# c"]))
        else: lines.append(gen_line(rng))
    eol = rng.choice([b"\n", b"\n", b"\r\n", b"\r\r\n"])
    body = eol.join(lines)
    if rng.random() < 0.6:
        body += eol
    return body

def mutate(rng, f):
    f = bytearray(f)
    for _ in range(rng.randint(1, 3)):
        q = rng.random()
        if q < 0.35 and f:
            del f[rng.randrange(len(f))]
        elif q < 0.75:
            ins = rng.choice([b"\"", b"\\", b"#", b"=", b"\n", b" ", b"[", b"]", b"\r", b"\xc2", b"\xa0", b"\xff", b"1", b"."])
            p = rng.randint(0, len(f)); f[p:p] = ins
        elif f:
            f[rng.randrange(len(f))] = rng.getrandbits(8)
    return bytes(f)

def decorate(rng, f):
    """spec transformation: blank lines, full-line comments, surrounding blanks, CRLF, inline comments appended to
    key=value lines — none of which may change the parsed data (f is a file written by the implementation)."""
    out = []
    lines = f.split(b"\n")
    if lines and lines[-1] == b"":
        lines.pop()
    blank = lambda: rng.choice([b"", b" ", b"\t", b"  \t ", "\u00a0".encode(), "\u3000 ".encode(), b"\x0b\x0c"])
    for ln in lines:
        if rng.random() < 0.3:
            out.append(rng.choice([blank(), blank() + b"# comment = \"x\" [y]", b"#", b"#[build]", blank() + b"#x=1"]))
        if b" = " in ln and not ln.startswith(b"["):
            if rng.random() < 0.5:
                ln = ln + rng.choice([b" # c", b" #", b"\t# \"quoted\" comment", b"   # a # b", b" # ]", b" # \\"])
        ln = blank() + ln + blank()
        out.append(ln)
    if rng.random() < 0.3:
        out.append(b"  # trailing comment")
    eol = rng.choice([b"\n", b"\r\n"])
    res = eol.join(out)
    if rng.random() < 0.7:
        res += eol
    return res

# ------------------------------------------------------------------ Coq rendering

def _pk(b):
    if not b:
        return "[]"
    xs = [str(int.from_bytes(b[i:i + 7], "little")) for i in range(0, len(b), 7)]
    return "(pk %d [%s]%%uint63)" % ((len(b) - 1) % 7 + 1, ";".join(xs))

def cq_bytes(b):
    """bytes -> Coq term of type `bytes` (packed, see Models/TomlCases.v); long runs are written with `rep n c`"""
    if len(b) < 400:
        return _pk(b)
    parts = []; i = 0; lit = bytearray()
    n = len(b)
    while i < n:
        j = i
        while j < n and b[j] == b[i]:
            j += 1
        if j - i >= 64:
            if lit:
                parts.append(_pk(bytes(lit))); lit = bytearray()
            parts.append("rep %d %d" % (j - i, b[i]))
        else:
            lit.extend(b[i:j])
        i = j
    if lit:
        parts.append(_pk(bytes(lit)))
    return "(" + " ++ ".join(parts) + ")"

def cq_val(v):
    t, x = v
    if t == "s": return "VStr " + cq_bytes(x)
    if t == "b": return "VBool " + ("true" if x else "false")
    if t == "i": return "VInt (%d)" % x
    if t == "f": return "VFloat %d" % x
    raise ValueError(v)

def cq_table(t):
    return "[" + ";".join("(%s,%s)" % (cq_bytes(k), cq_val(v)) for k, v in t) + "]"

def cq_data(d):
    return "[" + ";".join("(%s,%s)" % (cq_bytes(s), cq_table(t)) for s, t in d) + "]"

def cq_cm(cm):
    return "[" + ";".join("(%s,[%s])" % (cq_bytes(s), ";".join("(%s,%s)" % (cq_bytes(k), cq_bytes(c)) for k, c in sorted(t.items())))
                          for s, t in sorted(cm.items())) + "]"

def cq_expect(res):
    if res[0] == "ok":
        d = [(s, sorted(t.items())) for s, t in sorted(res[1].items())]
        return "Some " + cq_data(d)
    return "None"

HEAD = ("From Coq Require Import ZArith List Uint63.\nFrom FV Require Import Models.Toml Models.TomlCases.\nImport ListNotations.\n"
        "Open Scope Z_scope.\n")

def coq_eval(name, body, timeout):
    try:
        return common.coq_eval(name, body, timeout=timeout)
    finally:
        try: os.remove(os.path.join(common.GEN, "cases_%s.v" % name))
        except OSError: pass

def go_recode(b):
    """bytes as rewritten by Go's `for _, r := range s { WriteRune(r) }` (ill-formed byte -> U+FFFD, one byte at a time)"""
    out = bytearray(); i = 0; n = len(b)
    while i < n:
        c = b[i]
        if c < 0x80:
            out.append(c); i += 1; continue
        size = 2 if 0xC2 <= c <= 0xDF else 3 if 0xE0 <= c <= 0xEF else 4 if 0xF0 <= c <= 0xF4 else 0
        ch = b[i:i + size]
        ok = False
        if size and len(ch) == size:
            try:
                ch.decode("utf8"); ok = True
            except UnicodeDecodeError:
                ok = False
        if ok:
            out += ch; i += size
        else:
            out += b"\xef\xbf\xbd"; i += 1
    return bytes(out)

_GOSP = "".join(GO_SPACES)

def go_trim(b):
    return b.decode("utf8", "surrogateescape").strip(_GOSP).encode("utf8", "surrogateescape")

def candidates(fb):
    """texts the reader may hand to ParseFloat: for every line, the part after the first '=', cut at any '#'"""
    out = set()
    for raw in fb.split(b"\n"):
        p = raw.find(b"=")
        if p < 0:
            continue
        v = go_recode(go_trim(raw[p + 1:]))
        cuts = [i for i, c in enumerate(v) if c == 35][:6] + [len(v)]
        for i in cuts:
            c = go_trim(v[:i])
            if 0 < len(c) <= 400:
                out.add(c)
    return out

def parse_nested(out):
    m = re.search(r"=\s*(.*?)\s*:\s*list", out, re.S)
    if not m:
        return None
    body = m.group(1).replace("%Z", "").replace(";", ",").replace("nil", "[]")
    try:
        return json.loads(body)
    except ValueError:
        return None

# ------------------------------------------------------------------ main

def observed_order(d, file_bytes):
    """recover the map iteration order the writer used, from the written file (keys are unique per section and contain
    neither ' ' nor '='); on any surprise keep the given order (the byte comparison then reports the difference)."""
    try:
        dd = {s: dict(t) for s, t in d}
        order = {s: [] for s in dd}
        cur = b"default"
        for ln in file_bytes.split(b"\n"):
            if ln.startswith(b"[") and ln.endswith(b"]") and ln[1:-1] in dd and b" = " not in ln:
                cur = ln[1:-1]
            elif b" = " in ln:
                k = ln.split(b" = ", 1)[0]
                if cur in dd and k in dd[cur] and k not in order[cur]:
                    order[cur].append(k)
        out = []
        for s, t in d:
            if sorted(order[s]) != sorted(dd[s].keys()):
                return d
            out.append((s, [(k, dd[s][k]) for k in order[s]]))
        return out
    except Exception:
        return d

def expected_after_roundtrip(d):
    """the property: exactly d (as maps). Known open finding: an empty `default` table is not written at all."""
    return {s: dict(t) for s, t in d}

def rt_request(i, d, cm):
    return {"op": "rt", "id": i, "data": {s.hex(): {k.hex(): enc_val(v) for k, v in t} for s, t in d},
            "comments": {s.hex(): {k.hex(): c.hex() for k, c in t.items()} for s, t in cm.items()} if cm else None}

def rt_check(ans, d):
    """spec-side oracle on one driver answer; returns None if the round trip is exact, else a description"""
    if "werr" in ans:
        return "WriteTOMLFile failed: %s" % ans["werr"]
    res = dec_res(ans["res"])
    if res[0] == "panic":
        return "ParseTOMLFile panicked on the written file: %s" % res[1]
    if res[0] == "err":
        return "ParseTOMLFile rejects the file written by WriteTOMLFile: %s" % res[2][:120]
    want = expected_after_roundtrip(d)
    got = res[1]
    if got == want:
        return None
    for s in want:
        if s not in got:
            return "section %r is lost" % s.decode()
        for k, v in want[s].items():
            if k not in got[s]:
                return "key %r of section %r is lost" % (k.decode("utf8", "replace"), s.decode())
            if got[s][k] != v:
                return "value of %s.%s written as %s is read back as %s" % (
                    s.decode(), k.decode("utf8", "replace"), json.dumps(show_val(v)), json.dumps(show_val(got[s][k])))
        if set(got[s]) - set(want[s]):
            return "section %r gained keys %r" % (s.decode(), sorted(set(got[s]) - set(want[s]))[:3])
    return "sections %r appear that were not written" % sorted(set(got) - set(want))[:3]

def shrink_rt(exe, d, cm):
    """smallest failing sub-table: single entries first (with and without their comment)"""
    cands = []
    for s, t in d:
        for k, v in t:
            c = cm.get(s, {}).get(k)
            cands.append(([(s, [(k, v)])], {}))
            if c is not None:
                cands.append(([(s, [(k, v)])], {s: {k: c}}))
        if not t:
            cands.append(([(s, [])], {}))
    if not cands:
        return d, cm, None
    res, _ = drv(exe, [rt_request(i, dd, cc) for i, (dd, cc) in enumerate(cands)])
    for i, (dd, cc) in enumerate(cands):
        if i in res:
            w = rt_check(res[i], dd)
            if w:
                # shrink a long string value by bisection on its length
                (s, [(k, v)]) = dd[0]
                if v[0] == "s" and len(v[1]) > 8:
                    lo, hi = 0, len(v[1])          # lo passes (assumed), hi fails
                    while hi - lo > 1 and hi > 1:
                        mid = (lo + hi) // 2
                        d2 = [(s, [(k, ("s", v[1][:mid]))])]
                        r2, _ = drv(exe, [rt_request(0, d2, cc)])
                        if 0 in r2 and rt_check(r2[0], d2):
                            hi = mid
                        else:
                            lo = mid
                    d2 = [(s, [(k, ("s", v[1][:hi]))])]
                    r2, _ = drv(exe, [rt_request(0, d2, cc)])
                    if 0 in r2 and rt_check(r2[0], d2):
                        return d2, cc, rt_check(r2[0], d2)
                return dd, cc, w
    return d, cm, None

def rt_key(d, cm):
    canon = json.dumps([[s.hex(), [[k.hex(), enc_val(v)] for k, v in sorted(t)]] for s, t in sorted(d)] +
                       [sorted((s.hex(), sorted((k.hex(), c.hex()) for k, c in t.items())) for s, t in cm.items())])
    if len(canon) > 4000:
        canon = hashlib.sha256(canon.encode()).hexdigest()
    return canon

def rt_replay(d, cm, what, ans=None):
    r = {"kind": "roundtrip", "data": show_data(data_dict(d)),
         "comments": {s.decode(): {k.decode("utf8", "replace"): c.decode("utf8", "replace") for k, c in t.items()} for s, t in cm.items()},
         "request": rt_request(0, d, cm) if sum(len(v[1]) for _, t in d for _, v in t if v[0] == "s") < 5000 else "(long string value, see data)",
         "expected": "ParseTOMLFile(WriteTOMLFile(d)) == d", "observed": what,
         "how": "echo '<request>' | tomldrv   (hooks/tomldrv, built against the working tree)"}
    if ans is not None and "file" in ans and len(ans["file"]) < 4000:
        r["written_file"] = bytes.fromhex(ans["file"]).decode("utf8", "replace")
    return r

def main(run):
    thorough = run.tier == "thorough"
    exe, bh = build_tomldrv()
    rng = run.rng
    N_RT = 2000 if thorough else 380
    N_FILE = 4000 if thorough else 620
    N_MUT = 1200 if thorough else 250
    N_DEC = 1000 if thorough else 250
    run.rule = ("a case is one file content given to ParseTOMLFile (model and implementation compared as maps / error kind) or "
                "one table given to WriteTOMLFile (file bytes compared with the model, then read back and compared with the "
                "table itself); counted distinct by sha256 of the canonical input; trivial = empty file")
    run.trusted.append("hooks/tomldrv (Go driver over the public API of compiler/toml), harness/c20.py generators and oracles")
    run.trusted.append("strconv.FormatFloat/ParseFloat enter the model as finite tables computed by strconv on the texts the model asks for")
    run.assumptions = [
        "H1: strconv.ParseFloat(FormatFloat(x,'f',-1,64)) == x for finite x, also after appending \".0\" to a text without '.' (checked on every generated float)",
        "H2: FormatFloat(x,'f',-1,64) of a finite x consists of digits, at most one '.', an optional leading '-' (checked on every generated float)",
        "string values are valid UTF-8 (TOML text); an ill-formed byte is rewritten to U+FFFD by the rune loop of stripInlineComment (modelled and covered by the correspondence, outside the theorem's domain)",
        "keys are printable ASCII without '=', not starting with '#' or '['; inline comments are any bytes without LF",
        "the model describes the tree with fixes/C20-integral-float.patch and fixes/C20-long-line.patch applied",
        "file system behaviour (os.Create/Open, bufio.Scanner line splitting) is modelled as a byte string split at LF",
    ]
    run.extra["gates"] = ["generator never emits an empty `default` table (open finding F-C20-empty-default); one dedicated probe replays it"]
    run.extra["tomldrv_build"] = bh

    # ---- proof stage in the background (coqc start-up is slow here)
    pool = ThreadPoolExecutor(max_workers=2)
    proof_f = pool.submit(run.proof, "Props/C20.v")

    # ---- round-trip stream
    rts = fixed_rt_cases()
    n_fixed = len(rts)
    for _ in range(N_RT):
        rts.append(gen_data(rng))
    probe_empty = ([(b"default", [])], {})
    reqs = [rt_request(i, d, cm) for i, (d, cm) in enumerate(rts)]
    reqs.append(rt_request(len(rts), *probe_empty))
    ans, died = drv(exe, reqs)
    if died:
        fu = died["first_unanswered"]
        run.violation("crash:rt:" + hashlib.sha256(json.dumps(fu, sort_keys=True).encode()).hexdigest()[:16],
                      "the toml package crashed the driver process during a write/parse round trip (rc=%s)" % died["rc"],
                      {"kind": "process-died", "request": fu, "stderr": died["stderr"]})
        proof_f.result(); return

    # float hypotheses
    floats = sorted({v[1] for d, _ in rts for _, t in d for _, v in t if v[0] == "f"})
    ffa, _ = drv(exe, [{"op": "ff", "id": 0, "bits": ["%016x" % u for u in floats]}])
    ftexts = dict(zip(floats, ffa[0]["fmt"] or [])) if floats else {}
    chk = []
    for u in floats:
        s = ftexts[u]
        chk.append(s.encode().hex()); chk.append((s + ".0").encode().hex())
    pfa, _ = drv(exe, [{"op": "pf", "id": 0, "texts": chk}])
    pres = pfa[0]["res"] or []
    for n, u in enumerate(floats):
        s = ftexts[u]
        run.count("float_checked_H1_H2")
        if not re.fullmatch(r"-?[0-9]+(\.[0-9]+)?", s):
            run.violation("assume:H2:%016x" % u, "hypothesis H2 fails: FormatFloat(%r) = %r" % (bits2f(u), s), {"bits": "%016x" % u, "text": s})
        if pres[2 * n] != "%016x" % u or ("." not in s and pres[2 * n + 1] != "%016x" % u):
            run.violation("assume:H1:%016x" % u, "hypothesis H1 fails: ParseFloat(FormatFloat(%r)) differs" % bits2f(u),
                          {"bits": "%016x" % u, "text": s, "parsed": pres[2 * n], "parsed_dot0": pres[2 * n + 1]})
        x = bits2f(u)
        if ("." in s) == (x == int(x)):
            run.violation("assume:H3:%016x" % u, "hypothesis H3 fails: %r formatted as %r" % (x, s), {"bits": "%016x" % u, "text": s})

    # spec-side oracle: the round trip itself
    rt_fail = []
    for i, (d, cm) in enumerate(rts):
        a = ans[i]
        w = rt_check(a, d)
        nvals = sum(len(t) for _, t in d)
        run.case(("rt", rt_key(d, cm)), nontrivial=nvals > 0 or len(d) > 0,
                 sample={"table": show_data(data_dict(d)), "roundtrip": "exact" if not w else w} if (i >= n_fixed and nvals >= 2 and nvals <= 3) else None)
        run.count("rt_tables"); run.count("rt_values", nvals)
        for _, t in d:
            for _, v in t:
                run.count("rt_value_" + {"s": "string", "b": "bool", "i": "int", "f": "float"}[v[0]])
        if cm: run.count("rt_with_comments")
        if w:
            rt_fail.append((i, w))
    def fail_class(w):
        m = re.search(r'written as \{"(\w+)".*read back as \{"(\w+)"', w)
        if m: return "value:%s->%s" % (m.group(1), m.group(2))
        if "token too long" in w: return "toolong"
        return re.sub(r"'[^']*'|\"[^\"]*\"", "_", w)[:50]
    reported = set()
    for i, w in rt_fail:
        if fail_class(w) in reported or len(reported) >= 8:
            continue
        reported.add(fail_class(w))
        d, cm = rts[i]
        d2, cm2, w2 = shrink_rt(exe, d, cm)
        if w2 is None:
            d2, cm2, w2 = d, cm, w
        key = "rt:" + hashlib.sha256(rt_key(d2, cm2).encode()).hexdigest()[:20]
        n_same = sum(1 for _, x in rt_fail if fail_class(x) == fail_class(w))
        run.violation(key, "round trip not exact: %s (%d generated tables fail the same way)" % (w2, n_same), rt_replay(d2, cm2, w2))
    # dedicated probe of the open finding (empty default table)
    a = ans[len(rts)]
    w = rt_check(a, probe_empty[0])
    run.count("probe_empty_default")
    if w:
        run.violation(EMPTY_DEFAULT_KEY, "round trip not exact: an empty `default` table is not written, " + w,
                      rt_replay(probe_empty[0], {}, w, a))
    else:
        run.extra["note_empty_default"] = "the empty `default` table now survives the round trip: finding F-C20-empty-default can be closed and the model updated"

    # ---- parse stream: written files, decorated files, malformed files
    files = []          # (kind, bytes, expected-data-or-None for the spec oracle)
    wcases = []
    for i, (d, cm) in enumerate(rts):
        a = ans[i]
        if "file" not in a:
            continue
        fb = bytes.fromhex(a["file"])
        wcases.append((i, observed_order(d, fb), cm, fb))
        files.append(("written", fb, None))
    plain_idx = [i for i, (d, cm) in enumerate(rts) if not cm and "file" in ans[i] and len(ans[i]["file"]) < 4000 and i not in dict(rt_fail)]
    for _ in range(N_DEC):
        if not plain_idx: break
        i = rng.choice(plain_idx)
        files.append(("decorated", decorate(rng, bytes.fromhex(ans[i]["file"])), i))
    for _ in range(N_MUT):
        if not plain_idx: break
        i = rng.choice(plain_idx)
        files.append(("mutated", mutate(rng, bytes.fromhex(ans[i]["file"])), None))
    for fb in [b"", b"\n", b"=", b"[", b"]", b"[]", b"\"", b"k=\"", b"k=\"\"\"", b"k = \\", b"k = \"a\\\" # b\" # c", b"[\n", b"[]\nk=1",
               b"[ ]\nk=1\n", b"k = # c", b"k =", b"= v", b"k = \"a\" \"b\"", b"k = true # t", b"k = \"true\"", b"\xef\xbb\xbfk = 1",
               b"k = 1\r", b"k = 1\r\r\n", b"a" * 65536, b"k = " + b"9" * 40 + b"\n", b"k = \"" + b"x" * 70000 + b"\" # c\n", b"# " + b"c" * 66000 + b"\nk = 1\n",
               b"k=\xc2\x85\"v\"\xe2\x80\xa8", b"k=\"v\"\xc2", b"k=\xff#\xff", b"k=1 #\xff", b"k=\\# not comment", b"k=\"a\\\"#b\"#c"]:
        files.append(("fixed", fb, None))
    for _ in range(N_FILE):
        files.append(("malformed", gen_file(rng), None))
    preqs = [{"op": "parse", "id": j, "hex": fb.hex()} for j, (_, fb, _) in enumerate(files)]
    pans, died = drv(exe, preqs)
    if died:
        fu = died["first_unanswered"]
        fb = bytes.fromhex(fu["hex"]) if fu else b""
        run.violation("crash:parse:" + hashlib.sha256(fb).hexdigest()[:16],
                      "ParseTOMLFile crashed the process on a file (rc=%s)" % died["rc"],
                      {"kind": "process-died", "file_hex": fb.hex()[:4000], "file_len": len(fb), "stderr": died["stderr"]})
        proof_f.result(); return
    pres = {}
    for j, (kind, fb, src) in enumerate(files):
        r = dec_res(pans[j]["res"])
        pres[j] = r
        run.case(("file", hashlib.sha256(fb).hexdigest()), nontrivial=len(fb) > 0,
                 sample={"file": fb.decode("utf8", "replace"), "parsed": "ok" if r[0] == "ok" else r[0] + ":" + str(r[1])[:40]} if (kind == "malformed" and 8 < len(fb) < 60 and j % 7 == 0) else None)
        run.count("file_" + kind); run.count("parse_" + (r[0] if r[0] != "err" else "err_" + r[1]))
        if r[0] == "panic":
            if ("panic:" + r[1][:60]) not in reported:
                reported.add("panic:" + r[1][:60])
                run.violation("panic:" + hashlib.sha256(fb).hexdigest()[:16], "ParseTOMLFile panics: %s" % r[1][:150],
                              {"kind": "parse", "file_hex": fb.hex()[:8000], "file": fb.decode("utf8", "replace")[:2000], "panic": r[1]})
        elif r[0] == "err" and r[1] != "invalid" and ("perr:" + r[1]) not in reported:
            reported.add("perr:" + r[1])
            run.violation("parse-error:%s:%s" % (r[1], hashlib.sha256(fb).hexdigest()[:16]),
                          "ParseTOMLFile fails with an error that is not about the file's syntax: %s (file of %d bytes, longest line %d)"
                          % (r[2][:100], len(fb), max(len(x) for x in fb.split(b"\n"))),
                          {"kind": "parse", "file_len": len(fb), "file_head": fb[:200].decode("utf8", "replace"),
                           "file_rle": cq_bytes(fb)[:2000], "error": r[2]})
        elif kind == "decorated":
            want = dec_res(ans[src]["res"])
            if r != want:
                run.violation("decor:" + hashlib.sha256(fb).hexdigest()[:16],
                              "comments / blanks change the parsed values",
                              {"kind": "decorated", "original_file": bytes.fromhex(ans[src]["file"]).decode("utf8", "replace"),
                               "decorated_file": fb.decode("utf8", "replace"), "decorated_hex": fb.hex(),
                               "parsed_original": show_data(want[1]) if want[0] == "ok" else want,
                               "parsed_decorated": show_data(r[1]) if r[0] == "ok" else list(r)})

    # ---- correspondence with the model (Coq, vm_compute)
    nshard = 12 if thorough else 4
    shard_pool = ThreadPoolExecutor(max_workers=nshard)
    pcs = [(j, fb, pres[j]) for j, (_, fb, _) in enumerate(files) if pres[j][0] == "ok" or (pres[j][0] == "err" and pres[j][1] == "invalid")]
    ft = "[" + ";".join("(%d,%s)" % (u, cq_bytes(ftexts[u].encode())) for u in floats) + "]"
    coq_broken = None

    def model_float_texts(cases):
        """exact: ask the model (F := bytes) on which texts it consults ParseFloat"""
        sh_ = [cases[k::nshard] for k in range(nshard)]
        def one(k):
            if not sh_[k]: return True, "= [] : list bytes"
            body = HEAD + "Definition files : list bytes := [\n" + ";\n".join(cq_bytes(fb) for _, fb, _ in sh_[k]) + "].\n" + \
                "Eval vm_compute in (List.concat (List.map float_texts files)).\n"
            return coq_eval("c20_p1_%d_%d" % (os.getpid(), k), body, timeout=600)
        out = set()
        for ok, o in shard_pool.map(one, range(nshard)):
            lst = parse_nested(o) if ok else None
            if lst is None:
                return None, o[-1500:]
            out.update(bytes(t) for t in lst)
        return out, None

    def compare(wcs, cases, ptab):
        """bad ids of wcase_ok / pcase_ok with ParseFloat := the finite table ptab (texts that parse -> bits)"""
        pt = "[" + ";".join("(%s,Some %d)" % (cq_bytes(t), int(v, 16)) for t, v in sorted(ptab.items())) + "]"
        wsh = [wcs[k::nshard] for k in range(nshard)]
        psh = [cases[k::nshard] for k in range(nshard)]
        def one(k):
            if not wsh[k] and not psh[k]: return True, "= [] : list Z"
            body = HEAD + "Definition ft : list (Z * bytes) := %s.\nDefinition pt : list (bytes * option Z) := %s.\n" % (ft, pt)
            body += "Definition ws : list wcase := [\n" + ";\n".join(
                "(%d,%s,%s,%s)" % (i, cq_data(d), cq_cm(cm), cq_bytes(fb)) for i, d, cm, fb in wsh[k]) + "].\n"
            body += "Definition ps : list pcase := [\n" + ";\n".join(
                "(%d,%s,%s)" % (1000000 + j, cq_bytes(fb), cq_expect(r)) for j, fb, r in psh[k]) + "].\n"
            body += "Eval vm_compute in (bad_ids ft pt ws ps).\n"
            return coq_eval("c20_p2_%d_%d" % (os.getpid(), k), body, timeout=600)
        bad = []
        for ok, o in shard_pool.map(one, range(nshard)):
            ids = common.parse_bad_ids(o) if ok else None
            if ids is None:
                return None, o[-1500:]
            bad += ids
        return bad, None

    def float_table(texts):
        texts = sorted(texts)
        if not texts: return {}
        pfa, _ = drv(exe, [{"op": "pf", "id": 0, "texts": [t.hex() for t in texts]}])
        return {t: v for t, v in zip(texts, pfa[0]["res"] or []) if v is not None}

    t1 = time.time()
    bad = []
    if thorough:
        texts, coq_broken = model_float_texts(pcs)
        run.extra["float_texts"] = "exact (asked from the model) for every case"
    else:
        # quick: candidate texts computed here (a superset in practice); every disagreement is re-examined below with
        # the exact texts before it is reported, so a missed candidate cannot raise a false alarm
        texts = set()
        for _, fb, _ in pcs:
            texts |= candidates(fb)
        run.extra["float_texts"] = "candidates from harness, exact re-check of every disagreement"
    if coq_broken is None:
        ptab = float_table(texts)
        run.count("parsefloat_texts_tried", len(texts)); run.count("parsefloat_texts_accepted", len(ptab))
        bad, coq_broken = compare(wcases, pcs, ptab)
        if coq_broken is None and not thorough:
            badp = [c for c in pcs if 1000000 + c[0] in set(bad)]
            if badp:
                t2, coq_broken = model_float_texts(badp)
                if coq_broken is None:
                    ptab.update(float_table(t2))
                    bad2, coq_broken = compare([], badp, ptab)
                    if coq_broken is None:
                        run.count("rechecked_with_exact_texts", len(badp))
                        bad = [i for i in bad if i < 1000000] + bad2
        bad = bad or []
    run.extra["model_eval_s"] = round(time.time() - t1, 1)
    run.count("model_write_cases", len(wcases)); run.count("model_parse_cases", len(pcs))
    if coq_broken is not None:
        run.violation("coq-eval:C20", "the model evaluation (Models/Toml.v, cases file) does not compile", {"log": coq_broken}, no_input=True)
    already = bool(run.violations) or bool(rt_fail)
    ncorr = {"w": 0, "p": 0}
    for i in sorted(bad):
        if i < 1000000:
            if i not in dict(rt_fail):
                ncorr["w"] += 1
                if ncorr["w"] > (1 if already else 3): continue
            d, cm = rts[i]
            if i in dict(rt_fail):
                continue                                      # already reported as a property violation with a concrete table
            fb = bytes.fromhex(ans[i]["file"])
            run.violation("write-corr:" + hashlib.sha256(rt_key(d, cm).encode()).hexdigest()[:20],
                          "WriteTOMLFile output differs from the writer model (Models/Toml.v write) although the table is read back intact",
                          {"kind": "write-correspondence", "correspondence": "wcase_ok", "data": show_data(data_dict(d)),
                           "written_file": fb.decode("utf8", "replace")[:3000], "request": rt_request(0, d, cm) if len(fb) < 5000 else None},
                          no_input=True)
        else:
            j = i - 1000000
            kind, fb, src = files[j]
            if kind == "written" and already:
                continue
            ncorr["p"] += 1
            if ncorr["p"] > (1 if already else 3): continue
            run.violation("parse-corr:" + hashlib.sha256(fb).hexdigest()[:20],
                          "ParseTOMLFile and the reader model (Models/Toml.v parse_file) disagree on a %s file%s" % (
                              kind, " (a failing input of the property is reported separately)" if already else
                              "; no table of the writable domain was found on which the round trip itself fails"),
                          {"kind": "parse-correspondence", "correspondence": "pcase_ok", "file": fb.decode("utf8", "replace")[:3000],
                           "file_hex": fb.hex()[:8000], "implementation": show_data(pres[j][1]) if pres[j][0] == "ok" else list(pres[j])},
                          no_input=True)

    # ---- proof stage result
    ok = proof_f.result()
    if not ok:
        where, log = run.proof_failure
        if not run.violations:
            run.violation("proof:C20:" + where, "Props/C20 no longer checks (%s)" % where,
                          {"theorem_file": "coq/Props/C20.v", "where": where, "log": log}, no_input=True)

def replay(run, path):
    """re-run a recorded failing input against the working tree"""
    r = json.load(open(path))
    rp = r.get("replay", {})
    exe, _ = build_tomldrv()
    print(json.dumps({k: v for k, v in r.items() if k != "replay"}, indent=1))
    if rp.get("kind") == "roundtrip" and isinstance(rp.get("request"), dict):
        a, _ = drv(exe, [rp["request"]])
        d = [(bytes.fromhex(s), [(bytes.fromhex(k), dec_val(v)) for k, v in t.items()]) for s, t in rp["request"]["data"].items()]
        w = rt_check(a[0], d)
        print("written file:\n" + bytes.fromhex(a[0].get("file", "")).decode("utf8", "replace"))
        print("round trip:", "exact" if not w else "NOT exact: " + w)
        return 1 if w else 0
    if "file_hex" in rp or "decorated_hex" in rp:
        fb = bytes.fromhex(rp.get("file_hex") or rp.get("decorated_hex"))
        a, _ = drv(exe, [{"op": "parse", "id": 0, "hex": fb.hex()}])
        print(json.dumps(a.get(0), indent=1))
        return 0
    print(json.dumps(rp, indent=1)[:4000])
    return 0
