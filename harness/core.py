"""FerretCore v1: neutral AST, type-directed generator, renderers (Ferret source, Coq term), output parser.
Used by C01, C02, C03, C09.

AST (python tuples)
  expr: ('lit', ity, int) | ('bool', b) | ('str', "text") | ('var', x) | ('bin', op, a, b) | ('un', op, a) | ('cast', a, ity) | ('call', f, [args])
        | ('slit', sid, [field exprs]) | ('field', e, k[, array?])  (struct types are the strings "S<sid>", table STRUCTS;
                                                                       array? = written e[k] instead of e.F<k>)
  stmt: ('let', x, ty, e, const?) | ('assign', x, e) | ('cassign', x, op, e) | ('inc', x, +1|-1)
        | ('assignf', x, k, e[, array?]) | ('cassignf', x, k, op, e[, array?])
        | ('if', c, blockA, blockB) | ('while', c, block) | ('for', x, ity, lo, hi, block[, inclusive?, step expr|None]) | ('match', e, ity, [(int, block)], default_block|None)
        | ('break',) | ('continue',) | ('return', e|None)
        | ('fnlit', x, y, ity)   (let v<x> := fn(v<y>: T) -> T { return v<y>; };  a function literal that is never called:
                                  no effect in the reference (SSkip), but every later statement of the function comes after it)
        | ('print', [es]) | ('expr', e) | ('block', block)
        | ('closure', g)         (function g of the program is written here as a function literal `let c<g> := fn(...) { ... };`.
                                  fn g carries closure={param index: variable of the enclosing function}: those parameters are not
                                  written; the body mentions the enclosing function's variable instead (captured by reference), and a
                                  call ('call', g, args) is written c<g>(the other args).  In the reference g stays an ordinary function
                                  that receives a captured aggregate by mutable reference and a captured scalar by value (the literal's
                                  body never assigns it, so reading it at call time is the same); the statement itself is SSkip)
  block: list of stmt.  fn: dict(params=[(x, ty)], ret=ty, body=block[, method=True]).  prog: list of fn, last is main.
  A method is a function whose first parameter (a struct, passed by value) is written as the receiver: `fn (v1: S0) m3(v2: i32)`,
  called `recv.m3(arg)`; in the reference it is the plain function f3(recv, arg).
"""
import re

ITYS = ["i8", "i16", "i32", "i64", "u8", "u16", "u32", "u64"]
BITS = {"i8": 8, "i16": 16, "i32": 32, "i64": 64, "u8": 8, "u16": 16, "u32": 32, "u64": 64}
ARITH = ["+", "-", "*", "/", "%"]
CMP = ["==", "!=", "<", "<=", ">", ">="]
COQ_OP = {"+": "Add", "-": "Sub", "*": "Mul", "/": "Div", "%": "Mod", "==": "Eq", "!=": "Ne", "<": "Lt", "<=": "Le",
          ">": "Gt", ">=": "Ge", "&&": "And", "||": "Or"}

# fixed pool of struct shapes (integer fields only): mixed widths exercise padding / sub-word loads and stores in both back ends
STRUCTS = [["i32", "u8"], ["i64", "i16", "u32"], ["u16"], ["i8", "i8", "u64"], ["u8", "i64", "u8", "i32", "i16"],
           ["u32", "u32"], ["i16", "u8", "u8", "i64"], ["u64", "i8"],
           # from here on: fixed arrays [N]T. In the reference a fixed array indexed by constants is the same object as a struct
           # with N fields of type T (a by-value aggregate with positional components); only the concrete syntax differs.
           ["i32"] * 4, ["u8"] * 2, ["i64"], ["i16"] * 3, ["u64"] * 5,
           # small-field aggregates: sizes 3, 4, 6, 7, 10 bytes (copies that are not a multiple of the word size)
           ["u16", "u16", "u16"], ["u8"] * 6, ["u16"] * 5, ["u8"] * 6, ["i8", "u8", "i16"], ["u8", "u8", "u8"], ["i8"] * 7]
ARRAY_SIDS = {8, 9, 10, 11, 12, 15, 16, 19}
NAMED_SIDS = [k for k in range(len(STRUCTS)) if k not in ARRAY_SIDS]
def is_array_sid(k): return k in ARRAY_SIDS
def is_array(t): return is_struct(t) and sid_of(t) in ARRAY_SIDS
def is_struct(t): return isinstance(t, str) and t[0] == "S"
# enums: `type E<k> enum { V0, ..., V<n-1> }`. In the reference an enum value is the i32 number of its variant (only ==, !=,
# match, passing, returning and storing are generated, so nothing can tell the difference); the concrete syntax differs.
ENUMS = [3, 2, 5, 4]
def is_enum(t): return isinstance(t, str) and len(t) > 1 and t[0] == "E" and t[1:].isdigit()
def eid_of(t): return int(t[1:])
def is_mutref(t): return isinstance(t, str) and t[0] == "&"      # "&S3": parameter type &'S3 (mutable reference)
def base_ty(t): return t[1:] if is_mutref(t) else t
def sid_of(t): return int(t[1:])
def fields_of(t): return STRUCTS[sid_of(t)]
def structs_coq(): return "[" + "; ".join("[" + "; ".join(f.upper() for f in fs) + "]" for fs in STRUCTS) + "]"

def signed(t): return t[0] == "i"
def tmin(t): return -(1 << (BITS[t] - 1)) if signed(t) else 0
def tmax(t): return (1 << (BITS[t] - 1)) - 1 if signed(t) else (1 << BITS[t]) - 1
def wrap(t, x):
    m = 1 << BITS[t]
    x %= m
    if signed(t) and x >= m // 2: x -= m
    return x

# ------------------------------------------------------------------ rendering to Ferret

def r_ty(t):
    if is_mutref(t): return "&'" + r_ty(t[1:])
    if is_array(t): return "[%d]%s" % (len(fields_of(t)), fields_of(t)[0])
    return t

def r_expr(e):
    k = e[0]
    if k == "lit":
        v = e[2]
        return "(%d)" % v if v < 0 else str(v)
    if k == "bool": return "true" if e[1] else "false"
    if k == "str": return '"%s"' % e[1]
    if k == "elit": return "E%d::V%d" % (e[1], e[2])
    if k == "var": return "v%d" % _rn(e[1])
    if k == "bin": return "(%s %s %s)" % (r_expr(e[2]), e[1], r_expr(e[3]))
    if k == "un": return "(%s%s)" % (e[1], r_expr(e[2]))
    if k == "cast": return "(%s as %s)" % (r_expr(e[1]), e[2])
    if k == "call":
        pts = FNPARAMS[e[1]] if 0 <= e[1] < len(FNPARAMS) else []
        def arg(i, a):
            if i < len(pts) and is_mutref(pts[i]):
                # by mutable reference: &'x for a local, the bare name for a parameter that already is a reference
                return r_expr(a) if (a[0] == "var" and _rn(a[1]) in REFVARS) else "&'" + r_expr(a)
            return r_expr(a)
        if e[1] in CLOSURES:
            return "c%d(%s)" % (e[1], ", ".join(arg(i, a) for i, a in enumerate(e[2]) if i not in CLOSURES[e[1]]))
        if e[1] in METHODS and e[2]:
            return "%s.m%d(%s)" % (r_expr(e[2][0]), e[1], ", ".join(arg(i + 1, a) for i, a in enumerate(e[2][1:])))
        return "%s%d(%s)" % ("m" if e[1] in METHODS else "f", e[1], ", ".join(arg(i, a) for i, a in enumerate(e[2])))
    if k == "slit":
        if is_array_sid(e[1]): return "[%s]" % ", ".join(r_expr(a) for a in e[2])
        if len(e) > 3 and e[3]:      # bare literal (no `as S`): only where the position gives the type (right-hand side of an assignment)
            return "{ %s }" % ", ".join(".F%d = %s" % (i, r_expr(a)) for i, a in enumerate(e[2]))
        return "({ %s } as S%d)" % (", ".join(".F%d = %s" % (i, r_expr(a)) for i, a in enumerate(e[2])), e[1])
    if k == "field":
        if e[3] if len(e) > 3 else False: return "%s[%d]" % (r_expr(e[1]), e[2])
        return "%s.F%d" % (r_expr(e[1]), e[2])
    raise ValueError(e)

def r_block(b, ind):
    out = []
    for s in b:
        out += r_stmt(s, ind)
    return out

def r_stmt(s, ind):
    p = "    " * ind
    k = s[0]
    if k == "let":
        kw = "const" if (len(s) > 4 and s[4]) else "let"
        return ["%s%s v%d: %s = %s;" % (p, kw, s[1], r_ty(s[2]), r_expr(s[3]))]
    if k == "assign": return ["%sv%d = %s;" % (p, _rn(s[1]), r_expr(s[2]))]
    if k == "cassign": return ["%sv%d %s= %s;" % (p, _rn(s[1]), s[2], r_expr(s[3]))]
    if k == "inc": return ["%sv%d%s;" % (p, _rn(s[1]), "++" if s[2] > 0 else "--")]
    if k == "assignf":
        lhs = "v%d[%d]" % (_rn(s[1]), s[2]) if (len(s) > 4 and s[4]) else "v%d.F%d" % (_rn(s[1]), s[2])
        return ["%s%s = %s;" % (p, lhs, r_expr(s[3]))]
    if k == "closure":
        f = PROG[s[1]]
        ps = ", ".join("v%d: %s" % (x, r_ty(t)) for i, (x, t) in enumerate(f["params"]) if i not in CLOSURES[s[1]])
        ret = "" if f["ret"] == "void" else " -> %s" % r_ty(f["ret"])
        return ["%slet c%d := fn(%s)%s {" % (p, s[1], ps, ret)] + r_block(f["body"], ind + 1) + ["%s};" % p]
    if k == "cassignf":
        lhs = "v%d[%d]" % (_rn(s[1]), s[2]) if (len(s) > 5 and s[5]) else "v%d.F%d" % (_rn(s[1]), s[2])
        return ["%s%s %s= %s;" % (p, lhs, s[3], r_expr(s[4]))]
    if k == "if":
        out = ["%sif %s {" % (p, r_expr(s[1]))] + r_block(s[2], ind + 1)
        if s[3]:
            out += ["%s} else {" % p] + r_block(s[3], ind + 1)
        return out + ["%s}" % p]
    if k == "while":
        return ["%swhile %s {" % (p, r_expr(s[1]))] + r_block(s[2], ind + 1) + ["%s}" % p]
    if k == "for":
        incl = len(s) > 6 and s[6]
        step = s[7] if len(s) > 7 else None
        return ["%sfor v%d in %s%s%s%s {" % (p, s[1], r_expr(s[3]), "..=" if incl else "..", r_expr(s[4]),
                                             "" if step is None else ":" + r_expr(step))] + r_block(s[5], ind + 1) + ["%s}" % p]
    if k == "match":
        out = ["%smatch %s {" % (p, r_expr(s[1]))]
        for v, b in s[3]:
            lab = "%s::V%d" % (s[2], v) if is_enum(s[2]) else ("(%d)" % v if v < 0 else str(v))
            out += ["%s    %s => {" % (p, lab)] + r_block(b, ind + 2) + ["%s    }" % p]
        if s[4] is not None:
            out += ["%s    _ => {" % p] + r_block(s[4], ind + 2) + ["%s    }" % p]
        return out + ["%s}" % p]
    if k == "fnlit": return ["%slet v%d := fn(v%d: %s) -> %s { return v%d; };" % (p, s[1], s[2], s[3], s[3], s[2])]
    if k == "break": return [p + "break;"]
    if k == "continue": return [p + "continue;"]
    if k == "return": return [p + ("return;" if s[1] is None else "return %s;" % r_expr(s[1]))]
    if k == "print": return ["%sio::Println(%s);" % (p, ", ".join(r_expr(a) for a in s[1]))]
    if k == "expr": return ["%s%s;" % (p, r_expr(s[1]))]
    if k == "block": return [p + "{"] + r_block(s[1], ind + 1) + [p + "}"]
    raise ValueError(s)

METHODS = set()     # indexes of the functions of the program being rendered that are methods (set by to_ferret)
FNPARAMS = []       # parameter types of every function of the program being rendered
REFVARS = set()     # variables that are by-reference parameters (variable numbers are unique in a program)
CLOSURES = {}       # function index -> {parameter index: captured variable} for functions written as function literals
RENAME = {}         # parameter variable of such a function -> the captured variable of the enclosing function
PROG = []

def _rn(x):
    while x in RENAME:
        x = RENAME[x]
    return x

def _set_context(prog):
    global METHODS, FNPARAMS, REFVARS, CLOSURES, RENAME, PROG
    PROG = prog
    METHODS = {k for k, f in enumerate(prog) if f.get("method")}
    FNPARAMS = [[t for _, t in f["params"]] for f in prog]
    CLOSURES = {k: {int(i): v for i, v in f["closure"].items()} for k, f in enumerate(prog) if f.get("closure")}
    RENAME = {prog[k]["params"][i][0]: v for k, caps in CLOSURES.items() for i, v in caps.items()}
    REFVARS = {x for f in prog for x, t in f["params"] if is_mutref(t)} - set(RENAME)

def r_fn(k, f, is_main):
    name = "main" if is_main else "f%d" % k
    params = f["params"]
    if f.get("method") and params:
        name = "(v%d: %s) m%d" % (params[0][0], r_ty(params[0][1]), k)
        params = params[1:]
    ps = ", ".join("v%d: %s" % (x, r_ty(t)) for x, t in params)
    ret = "" if f["ret"] == "void" else " -> %s" % r_ty(f["ret"])
    return ["fn %s(%s)%s {" % (name, ps, ret)] + r_block(f["body"], 1) + ["}", ""]

import threading
_render_lock = threading.RLock()      # the renderers keep per-program state in module globals (METHODS, _match_tmp)

def to_ferret(prog):
    with _render_lock:
        _set_context(prog)
        body = []
        for k, f in enumerate(prog):
            if f.get("closure"): continue      # written where its ('closure', k) statement stands
            body += r_fn(k, f, k == len(prog) - 1)
    out = ['import "std/io";', ""]
    for k in sorted({int(m) for l in body for m in re.findall(r"\bE(\d+)\b", l)}):
        out.append("type E%d enum { %s };" % (k, ", ".join("V%d" % i for i in range(ENUMS[k]))))
    used = sorted({int(m) for l in body for m in re.findall(r"\bS(\d+)\b", l)})
    for k in used:
        out.append("type S%d struct { %s };" % (k, ", ".join(".F%d: %s" % (i, t) for i, t in enumerate(STRUCTS[k]))))
    if used: out.append("")
    return "\n".join(out + body) + "\n"

# ------------------------------------------------------------------ rendering to Coq (FV.Core.Syntax)

def c_ity(t): return "I32" if is_enum(t) else t.upper()
def c_ty(t):
    if t == "bool": return "TBool"
    if is_enum(t): return "(TInt I32)"
    if t == "str": return "TStr"
    if t == "void": return "TVoid"
    if is_struct(t): return "(TStruct %d)" % sid_of(t)
    if is_mutref(t): return "(TMutRef %d)" % sid_of(t[1:])
    return "(TInt %s)" % c_ity(t)

def c_expr(e, types=None):
    k = e[0]
    if k == "lit": return "(ELit %s (%d)%%Z)" % (c_ity(e[1]), e[2])
    if k == "bool": return "(EBool %s)" % ("true" if e[1] else "false")
    if k == "str": return '(EStr "%s"%%string)' % e[1]
    if k == "elit": return "(ELit I32 (%d)%%Z)" % e[2]
    if k == "var": return "(EVar %d)" % e[1]
    if k == "bin": return "(EBin %s %s %s)" % (COQ_OP[e[1]], c_expr(e[2]), c_expr(e[3]))
    if k == "un": return "(EUn %s %s)" % ("Neg" if e[1] == "-" else "Not", c_expr(e[2]))
    if k == "cast": return "(ECast %s %s)" % (c_expr(e[1]), c_ity(e[2]))
    if k == "call":
        pts = FNPARAMS[e[1]] if 0 <= e[1] < len(FNPARAMS) else []
        if any(is_mutref(t) for t in pts):
            return "(ECallR %d [%s])" % (e[1], "; ".join("(%s, %s)" % ("true" if (i < len(pts) and is_mutref(pts[i])) else "false", c_expr(a))
                                                            for i, a in enumerate(e[2])))
        return "(ECall %d [%s])" % (e[1], "; ".join(c_expr(a) for a in e[2]))
    if k == "slit": return "(EStructLit %d [%s])" % (e[1], "; ".join(c_expr(a) for a in e[2]))
    if k == "field": return "(EField %s %d)" % (c_expr(e[1]), e[2])
    raise ValueError(e)

_match_tmp = 0

def c_block(b):
    if not b: return "SSkip"
    if len(b) == 1: return c_stmt(b[0])
    return "(SSeq %s %s)" % (c_stmt(b[0]), c_block(b[1:]))

def c_stmt(s):
    k = s[0]
    if k == "let": return "(SLet %d %s %s)" % (s[1], c_ty(s[2]), c_expr(s[3]))
    if k == "assign": return "(SAssign %d %s)" % (s[1], c_expr(s[2]))
    if k == "cassign": return "(SAssign %d (EBin %s (EVar %d) %s))" % (s[1], COQ_OP[s[2]], s[1], c_expr(s[3]))
    if k == "inc": return "(SAssign %d (EBin %s (EVar %d) (ELit %s 1%%Z)))" % (s[1], "Add" if s[2] > 0 else "Sub", s[1], c_ity(s[3]))
    if k == "assignf": return "(SAssignField %d %d %s)" % (s[1], s[2], c_expr(s[3]))
    if k == "cassignf": return "(SAssignField %d %d (EBin %s (EField (EVar %d) %d) %s))" % (s[1], s[2], COQ_OP[s[3]], s[1], s[2], c_expr(s[4]))
    if k == "if": return "(SIf %s %s %s)" % (c_expr(s[1]), c_block(s[2]), c_block(s[3]))
    if k == "while": return "(SWhile %s %s)" % (c_expr(s[1]), c_block(s[2]))
    if k == "for":
        incl = len(s) > 6 and s[6]
        step = s[7] if len(s) > 7 and s[7] is not None else ("lit", s[2], 1)
        return "(SFor %d %s %s %s %s %s %s)" % (s[1], c_ity(s[2]), c_expr(s[3]), c_expr(s[4]), "true" if incl else "false", c_expr(step), c_block(s[5]))
    if k == "match":
        # desugared in the reference: { const tmp = e; if tmp == v1 {a1} else if tmp == v2 {a2} ... else {default} }
        global _match_tmp
        _match_tmp += 1
        tmp = 3000 + _match_tmp
        chain = c_block(s[4]) if s[4] is not None else "SSkip"
        for v, b in reversed(s[3]):
            chain = "(SIf (EBin Eq (EVar %d) (ELit %s (%d)%%Z)) %s %s)" % (tmp, c_ity(s[2]), v, c_block(b), chain)
        return "(SBlock (SSeq (SLet %d (TInt %s) %s) %s))" % (tmp, c_ity(s[2]), c_expr(s[1]), chain)
    if k == "fnlit": return "SSkip"
    if k == "closure": return "SSkip"
    if k == "break": return "SBreak"
    if k == "continue": return "SContinue"
    if k == "return": return "(SReturn None)" if s[1] is None else "(SReturn (Some %s))" % c_expr(s[1])
    if k == "print": return "(SPrint [%s])" % "; ".join(c_expr(a) for a in s[1])
    if k == "expr": return "(SExpr %s)" % c_expr(s[1])
    if k == "block": return "(SBlock %s)" % c_block(s[1])
    raise ValueError(s)

def c_fn(f):
    return "{| fparams := [%s]; fret := %s; fbody := %s |}" % (
        "; ".join("(%d, %s)" % (x, c_ty(t)) for x, t in f["params"]), c_ty(f["ret"]), c_block(f["body"]))

def to_coq(prog):
    global _match_tmp
    with _render_lock:
        _match_tmp = 0
        _set_context(prog)
        return "[" + ";\n   ".join(c_fn(f) for f in prog) + "]"

def c_lines(lines):
    """observed output lines (list of list of python int/bool) -> Coq `list line`"""
    def it(x):
        if isinstance(x, bool): return "OBool %s" % ("true" if x else "false")
        if isinstance(x, str): return 'OStr "%s"%%string' % x
        return "OInt (%d)%%Z" % x
    return "[" + "; ".join("[" + "; ".join(it(x) for x in l) + "]" for l in lines) + "]"

def parse_output(text):
    """stdout of a program that prints only integers and booleans -> list of lines, or None if unparsable."""
    lines = []
    for l in text.splitlines():
        toks = l.split()
        row = []
        for t in toks:
            if t == "true": row.append(True)
            elif t == "false": row.append(False)
            elif re.fullmatch(r"-?\d+", t): row.append(int(t))
            elif re.fullmatch(r"[a-z]+", t): row.append(t)      # strings are generated from lower-case letters only
            else: return None
        lines.append(row)
    return lines

# ------------------------------------------------------------------ generator

def has_call(e):
    k = e[0]
    if k in ("call", "callvar"): return True
    if k == "bin": return has_call(e[2]) or has_call(e[3])
    if k == "un": return has_call(e[2])
    if k == "cast": return has_call(e[1])
    if k == "slit": return any(has_call(a) for a in e[2])
    if k == "field": return has_call(e[1])
    return False

def always_exits(s):
    """does control never reach the statement after s? (the compiler rejects such code as unreachable)"""
    k = s[0]
    if k in ("break", "continue", "return"): return True
    if k == "if": return bool(s[3]) and block_exits(s[2]) and block_exits(s[3])
    if k == "block": return block_exits(s[1])
    if k == "match": return s[4] is not None and block_exits(s[4]) and all(block_exits(b) for _, b in s[3])
    return False

def block_exits(b):
    return any(always_exits(s) for s in b)

class Gen:
    """Type-directed generator of well-typed, terminating, defined (no division by zero) programs."""
    def __init__(self, rng, max_stmts=40, max_depth=4, itys=None, allow_subword_arith=True):
        self.rng = rng
        self.max_stmts = max_stmts
        self.max_depth = max_depth
        self.itys = itys or ITYS
        self.allow_subword_arith = allow_subword_arith
        self.nvar = 0
        self.fns = []      # signatures of already generated functions: (params types, ret, recursive?)
        self.budget = 0
        self.features = {}
        self.gate_eager_logic = False     # (was a gate for F-LOGIC-EAGER, repaired by 31686fd)
        self.gate_self_operand = False    # (was a gate for F-QBE-SELF-OPERAND, repaired by 340ec5d)
        self.structs = True               # struct-typed locals, parameters, results, field reads and writes
        self.refs = True                  # parameters passed by mutable reference (&'S), written through by the callee
        self.strings = True               # str values: literals, concatenation, == / !=, parameters, results, printing
        self.enums = True                 # enum values: variants, == / !=, match, parameters, results
        self.fnlits = True                # function literals that are declared and never called (native only: the wasm back end
                                          # rejects function literals, an open finding of C13)
        self.closures = False             # closure kit: functions written as (nested) function literals capturing variables
        self.closure_only = set()         # functions reserved for the kit (never called by generated code elsewhere)
        self.refparams = set()            # by-reference parameters of the function being generated
        # the borrow checker keeps a mutable borrow alive to the end of the statement: within one statement a variable that is
        # lent (&'x) may be read before the call (left to right) but is not mentioned after it, and is not the target of the
        # statement's assignment (stmt_used holds the assignment target)
        self.stmt_used = set()
        self.stmt_lent = set()
        self.str_cat_budget = 6           # concatenating string assignments left in this program

    def feat(self, k):
        self.features[k] = self.features.get(k, 0) + 1

    def fresh(self):
        self.nvar += 1
        return self.nvar

    def lit(self, t):
        r = self.rng
        c = r.random()
        lo, hi = tmin(t), tmax(t)
        if c < 0.35: v = r.choice([0, 1, 2, 3, 5, 7, 10])
        elif c < 0.5: v = r.choice([hi, hi - 1, lo, lo + 1, hi // 2, hi // 2 + 1])
        elif c < 0.6 and signed(t): v = -r.choice([1, 2, 3, 7])
        elif c < 0.8: v = r.randint(max(lo, -200), min(hi, 200))
        else: v = r.randint(lo, hi)
        return ("lit", t, max(lo, min(hi, v)))

    def vars_of(self, env, t):
        # a by-reference parameter is read through its fields or copied by `let`; it is not used as a whole value elsewhere
        return [x for sc in env for x, (ty, _) in sc.items() if ty == t and x not in self.refparams and x not in self.stmt_lent]

    def borrowable(self, env, t, taken=()):
        return [x for sc in env for x, (ty, const) in sc.items() if ty == t and not const and x not in taken
                and x not in self.stmt_used and x not in self.stmt_lent]

    def callable_in(self, k, env):
        taken = []
        for pt in self.fns[k][0]:
            if is_mutref(pt):
                c = self.borrowable(env, pt[1:], taken)
                if not c: return False
                taken.append(c[0])
        return True

    def cands(self, env, pred):
        return [k for k, f in enumerate(self.fns) if pred(f) and k not in self.closure_only and self.callable_in(k, env)]

    def int_expr(self, t, env, d, nonlit=False):
        r = self.rng
        vs = self.vars_of(env, t)
        choices = []
        if vs: choices += ["var"] * 4
        if not nonlit: choices += ["lit"] * 2
        flds = self.fields_in_scope(env, t) if self.structs else []
        if flds: choices += ["field"] * 2
        if d > 0:
            choices += ["arith"] * 4 + ["cast"] * 1
            if signed(t): choices += ["neg"]
            if self.cands(env, lambda f: f[1] == t): choices += ["call"] * 2
            if self.structs and self.cands(env, lambda f: is_struct(f[1]) and t in fields_of(f[1]) and not f[2]): choices += ["callfield"]
        if not choices:
            raise RuntimeError("no variable of type %s in scope (prelude missing?)" % t)
        c = r.choice(choices)
        if c == "var": return ("var", r.choice(vs))
        if c == "field":
            self.feat("field-read")
            x, k, arr = r.choice(flds)
            return ("field", ("var", x), k, arr)
        if c == "callfield":
            self.feat("call-field-read")
            k = r.choice(self.cands(env, lambda f: is_struct(f[1]) and t in fields_of(f[1]) and not f[2]))
            st = self.fns[k][1]
            return ("field", ("call", k, self.call_args(k, env, d)), r.choice([i for i, ft in enumerate(fields_of(st)) if ft == t]), is_array(st))
        if c == "lit": return self.lit(t)
        if c == "neg":
            self.feat("neg")
            return ("un", "-", self.int_expr(t, env, d - 1, nonlit=True))
        if c == "cast":
            s = r.choice(self.itys)
            self.feat("cast")
            return ("cast", self.int_expr(s, env, d - 1, nonlit=True), t)
        if c == "call":
            return self.call_expr(t, env, d)
        op = r.choice(["+", "-", "*", "+", "-", "*", "/", "%"])
        self.feat("op" + op); self.feat("ty:" + t)
        if op in "/%":
            a = self.int_expr(t, env, d - 1, nonlit=True)
            dv = r.choice([1, 2, 3, 5, 7, 10, 16, 100]) if tmax(t) >= 100 else r.choice([1, 2, 3, 5, 7, 10])
            if signed(t) and r.random() < 0.3:
                dv = -r.choice([2, 3, 5, 7] + ([1, 1] if BITS[t] < 32 else []))
            return ("bin", op, a, ("lit", t, dv))
        # at least one operand is not a literal (literal-only expressions are folded as untyped constants)
        for _ in range(8):
            if r.random() < 0.5:
                a, b = self.int_expr(t, env, d - 1, nonlit=True), self.int_expr(t, env, d - 1)
            else:
                a, b = self.int_expr(t, env, d - 1), self.int_expr(t, env, d - 1, nonlit=True)
            if a != b or not self.gate_self_operand: break
        if a == b and self.gate_self_operand:
            b = ("bin", "+", b, ("lit", t, 1))
        return ("bin", op, a, b)

    def bool_expr(self, env, d, nonlit=False):
        r = self.rng
        vs = self.vars_of(env, "bool")
        choices = ["cmp"] * 4
        if vs: choices += ["var"] * 2
        if not nonlit: choices += ["lit"]
        if d > 0:
            choices += ["and", "or", "not"]
            if self.cands(env, lambda f: f[1] == "bool"): choices += ["call"]
        c = r.choice(choices)
        if c == "var": return ("var", r.choice(vs))
        if c == "lit": return ("bool", r.random() < 0.5)
        if c == "not":
            return ("un", "!", self.bool_expr(env, d - 1, nonlit=True))
        if c in ("and", "or"):
            self.feat(c)
            lhs = self.bool_expr(env, d - 1, nonlit=True)
            rhs = self.bool_expr(env, d - 1, nonlit=True)
            if self.gate_eager_logic:
                for _ in range(6):
                    if not has_call(rhs): break
                    rhs = self.bool_expr(env, max(d - 2, 0), nonlit=True)
                if has_call(rhs):
                    rhs = self.bool_expr(env, 0, nonlit=True)
                    if has_call(rhs): rhs = ("bool", True)
            return ("bin", "&&" if c == "and" else "||", lhs, rhs)
        if c == "call":
            return self.call_expr("bool", env, d)
        evs = [(x, ty) for sc in env for x, (ty, _) in sc.items() if is_enum(ty)] if self.enums else []
        if evs and r.random() < 0.12:
            self.feat("enum-compare")
            x, ty = r.choice(evs)
            return ("bin", r.choice(["==", "!="]), ("var", x), self.enum_expr(ty, env, max(d - 1, 0)))
        if self.strings and self.vars_of(env, "str") and r.random() < 0.12:
            self.feat("str-compare")
            return ("bin", r.choice(["==", "!="]), self.str_expr(env, max(d - 1, 0), nonlit=True), self.str_expr(env, max(d - 1, 0)))
        t = r.choice(self.itys)
        op = r.choice(CMP)
        self.feat("cmp:" + t)
        return ("bin", op, self.int_expr(t, env, max(d - 1, 0), nonlit=True), self.int_expr(t, env, max(d - 1, 0)))

    def fields_in_scope(self, env, t):
        return [(x, k, is_array(ty)) for sc in env for x, (ty, _) in sc.items() if is_struct(ty) and x not in self.stmt_lent
                for k, ft in enumerate(fields_of(ty)) if ft == t]

    def struct_expr(self, t, env, d):
        r = self.rng
        choices = ["slit"] * 2
        vs = self.vars_of(env, t)
        if vs: choices += ["var"] * 3
        if d > 0 and self.cands(env, lambda f: f[1] == t): choices += ["call"] * 2
        c = r.choice(choices)
        if c == "var":
            return ("var", r.choice(vs))
        if c == "call": return self.call_expr(t, env, d)
        self.feat("struct-lit")
        return ("slit", sid_of(t), [self.int_expr(ft, env, max(d - 1, 0)) for ft in fields_of(t)])

    STR_ALPHABET = "abcdghkmnpqsxyz"      # no t, r, u, e, f, l: no concatenation can spell true / false

    def str_expr(self, env, d, nonlit=False):
        r = self.rng
        vs = self.vars_of(env, "str")
        choices = []
        if vs: choices += ["var"] * 3
        if not nonlit or not vs: choices += ["lit"] * 2
        if d > 0:
            choices += ["cat"] * 3
            if self.cands(env, lambda f: f[1] == "str"): choices += ["call"] * 2
        c = r.choice(choices)
        if c == "var": return ("var", r.choice(vs))
        if c == "call": return self.call_expr("str", env, d)
        if c == "cat":
            self.feat("str-concat")
            return ("bin", "+", self.str_expr(env, d - 1), self.str_expr(env, d - 1))
        return ("str", "".join(r.choice(self.STR_ALPHABET) for _ in range(r.randint(1, 4))))

    def enum_expr(self, t, env, d):
        r = self.rng
        vs = self.vars_of(env, t)
        choices = ["lit"] * 2
        if vs: choices += ["var"] * 3
        if d > 0 and self.cands(env, lambda f: f[1] == t): choices += ["call"] * 2
        c = r.choice(choices)
        if c == "var": return ("var", r.choice(vs))
        if c == "call": return self.call_expr(t, env, d)
        return ("elit", eid_of(t), r.randrange(ENUMS[eid_of(t)]))

    def expr(self, t, env, d, nonlit=False):
        if is_enum(t): return self.enum_expr(t, env, d)
        if t == "str": return self.str_expr(env, d, nonlit)
        if is_struct(t): return self.struct_expr(t, env, d)
        return self.bool_expr(env, d, nonlit) if t == "bool" else self.int_expr(t, env, d, nonlit)

    def call_expr(self, t, env, d):
        r = self.rng
        cands = self.cands(env, lambda f: f[1] == t)
        k = r.choice(cands)
        return ("call", k, self.call_args(k, env, d))

    def call_args(self, k, env, d):
        pts, ret, rec = self.fns[k]
        # variables lent by mutable reference: distinct, and not mentioned anywhere else in the arguments of this call
        lent = {}
        for i, pt in enumerate(pts):
            if is_mutref(pt):
                lent[i] = self.rng.choice(self.borrowable(env, pt[1:], lent.values()))
                self.stmt_lent.add(lent[i])
                self.feat("arg-by-reference")
        if lent:
            gone = set(lent.values())
            env = [{x: v for x, v in sc.items() if x not in gone} for sc in env]
        args = []
        for i, pt in enumerate(pts):
            if i in lent:
                args.append(("var", lent[i]))
            elif rec and i == 0:
                args.append(("lit", "i32", self.rng.randint(0, 4)))
            else:
                args.append(self.expr(pt, env, max(d - 1, 0)))
        self.feat("call")
        return args

    def any_ty(self, with_bool=True, with_struct=False):
        r = self.rng
        if with_struct and self.structs and r.random() < 0.18: return "S%d" % r.randrange(len(STRUCTS))
        if with_struct and self.enums and r.random() < 0.1: return "E%d" % r.randrange(len(ENUMS))
        if with_bool and self.strings and r.random() < 0.1: return "str"
        if with_bool and r.random() < 0.2: return "bool"
        return r.choice(self.itys)

    def block(self, env, d, inloop, ret, n, protected):
        env = env + [{}]
        out = []
        for _ in range(n):
            if self.budget <= 0: break
            s = self.stmt(env, d, inloop, ret, protected)
            out.append(s)
            if always_exits(s):
                break
        return out

    def stmt(self, env, d, inloop, ret, protected):
        r = self.rng
        self.budget -= 1
        self.stmt_used, self.stmt_lent = set(), set()
        assignable = [(x, ty) for sc in env for x, (ty, const) in sc.items() if not const and x not in protected]
        choices = ["let"] * 4 + ["print"] * 3
        if assignable: choices += ["assign"] * 3 + ["cassign"] * 2 + ["inc"]
        sassignable = [(x, ty) for x, ty in assignable if is_struct(ty)]
        if sassignable: choices += ["assignf"] * 3 + ["selfassign"]
        if self.structs and r.random() < 0.5: choices += ["dump"] * 2
        if self.fnlits and r.random() < 0.25: choices += ["fnlit"]
        if d > 0 and self.budget > 3:
            choices += ["if"] * 3 + ["while"] * 2 + ["block"] + ["for"] * 2 + ["match"] * 2
        if inloop and r.random() < 0.15: choices += ["break", "continue"]
        if self.cands(env, lambda f: f[1] == "void"): choices += ["callstmt"]
        if self.refparams and r.random() < 0.3: choices += ["copyref"]
        if ret is not None and d < self.max_depth and r.random() < 0.12: choices += ["return"] * 2
        c = r.choice(choices)
        self.feat("s:" + c)
        if c == "let":
            t = self.any_ty(with_struct=True)
            x = self.fresh()
            const = r.random() < 0.25
            e = self.expr(t, env, r.randint(0, 3))
            env[-1][x] = (t, const)
            return ("let", x, t, e, const)
        if c == "selfassign":
            # x = { .F0 = x.F1, .F1 = x.F0 + e, ... }: every component of the new value is computed from the OLD value of x
            # (seed C01e: a literal built directly into the assigned variable reads components it has already overwritten)
            x, ty = r.choice(sassignable)
            fts = fields_of(ty)
            self.stmt_used = {x}
            es = []
            for i_, ft in enumerate(fts):
                j_ = r.randrange(len(fts))
                e = ("field", ("var", x), j_, is_array(ty))
                if fts[j_] != ft: e = ("cast", e, ft)
                if r.random() < 0.4 and (self.allow_subword_arith or BITS[ft] >= 32):
                    e = ("bin", r.choice(["+", "-"]), e, self.lit(ft))
                es.append(e)
            self.feat("self-referential-aggregate-assignment")
            return ("assign", x, ("slit", sid_of(ty), es, r.random() < 0.6))
        if c == "fnlit":
            self.feat("function-literal")
            return ("fnlit", self.fresh(), self.fresh(), r.choice(self.itys))
        if c == "dump":
            # every component of one aggregate (a copy that drops or garbles a tail component shows here)
            svs = [(x, ty) for sc in env for x, (ty, _) in sc.items() if is_struct(ty)]
            if svs:
                x, ty = r.choice(svs)
                return ("print", [("field", ("var", x), k_, is_array(ty)) for k_ in range(len(fields_of(ty)))])
            c = "print"
        if c == "print":
            vs = [(x, ty) for sc in env for x, (ty, _) in sc.items()]
            es = []
            vs0 = vs
            for _ in range(r.randint(1, 3)):
                vs = [(x, ty) for x, ty in vs0 if x not in self.stmt_lent]
                if vs and r.random() < 0.6:
                    x, ty = r.choice(vs)
                    if is_enum(ty):
                        es.append(("bin", "==", ("var", x), ("elit", eid_of(ty), r.randrange(ENUMS[eid_of(ty)]))))
                        continue
                    es.append(("field", ("var", x), r.randrange(len(fields_of(ty))), is_array(ty)) if is_struct(ty) else ("var", x))
                else:
                    es.append(self.expr(self.any_ty(), env, r.randint(1, 3), nonlit=True))
            return ("print", es)
        if c == "assign":
            x, t = r.choice(assignable)
            self.stmt_used.add(x)
            if t == "str":
                # strings grow under concatenation: `s = s + s` in a loop (or a dozen times in a row) doubles the length each
                # time; assignments in loops take a literal or a variable, elsewhere a bounded number of concatenations
                if inloop or self.str_cat_budget <= 0:
                    vs = self.vars_of(env, "str")
                    return ("assign", x, ("var", r.choice(vs)) if (vs and r.random() < 0.5) else self.str_expr(env, 0))
                self.str_cat_budget -= 1
                return ("assign", x, self.str_expr(env, 1))
            return ("assign", x, self.expr(t, env, r.randint(0, 3)))
        if c == "assignf":
            x, ty = r.choice(sassignable)
            self.stmt_used.add(x)
            k = r.randrange(len(fields_of(ty)))
            ft = fields_of(ty)[k]
            if r.random() < 0.6:
                self.feat("field-assign")
                return ("assignf", x, k, self.int_expr(ft, env, r.randint(0, 3)), is_array(ty))
            self.feat("field-compound-assign")
            op = r.choice(["+", "-", "*", "/", "%"])
            if op in "/%":
                return ("cassignf", x, k, op, ("lit", ft, r.choice([1, 2, 3, 7])), is_array(ty))
            return ("cassignf", x, k, op, self.int_expr(ft, env, r.randint(0, 2)), is_array(ty))
        if c == "cassign":
            ints = [(x, t) for x, t in assignable if t in ITYS]
            if not ints: return ("print", [self.expr("bool", env, 1, nonlit=True)])
            x, t = r.choice(ints)
            op = r.choice(["+", "-", "*", "/", "%"])
            if op in "/%":
                return ("cassign", x, op, ("lit", t, r.choice([1, 2, 3, 7])))
            e = self.int_expr(t, env, r.randint(0, 2))
            if e == ("var", x) and self.gate_self_operand:
                e = ("bin", "+", e, ("lit", t, 1))
            return ("cassign", x, op, e)
        if c == "inc":
            ints = [(x, t) for x, t in assignable if t in ITYS]
            if not ints: return ("print", [self.expr("bool", env, 1, nonlit=True)])
            x, t = r.choice(ints)
            return ("inc", x, r.choice([1, -1]), t)
        if c == "if":
            cond = self.bool_expr(env, r.randint(0, 2), nonlit=True)
            a = self.block(env, d - 1, inloop, ret, r.randint(1, 4), protected)
            b = self.block(env, d - 1, inloop, ret, r.randint(1, 3), protected) if r.random() < 0.6 else []
            return ("if", cond, a, b)
        if c == "block":
            return ("block", self.block(env, d - 1, inloop, ret, r.randint(1, 3), protected))
        if c == "while":
            # counted loop: the counter is declared just before (as a sibling statement via a wrapping block)
            i = self.fresh()
            t = r.choice([t for t in self.itys if t not in ("u8", "i8")] or self.itys)
            n = r.randint(0, 4)
            env2 = env + [{i: (t, False)}]
            body = [("cassign", i, "+", ("lit", t, 1))] + self.block(env2, d - 1, True, ret, r.randint(1, 4), protected | {i})
            cond = ("bin", "<", ("var", i), ("lit", t, n))
            if r.random() < 0.3:
                cond = ("bin", "&&", cond, self.bool_expr(env2, 1, nonlit=True))
            return ("block", [("let", i, t, ("lit", t, 0), False), ("while", cond, body)])
        if c == "for":
            # typed bounds held in locals (a range over bare literals is not compiled by the native back end)
            t = r.choice([t for t in self.itys if t not in ("u8", "i8")] or self.itys)
            vlo, vhi, x = self.fresh(), self.fresh(), self.fresh()
            lo = r.randint(-2, 3) if signed(t) else r.randint(0, 3)
            n = r.randint(0, 4)
            env2 = env + [{vlo: (t, True), vhi: (t, True)}]
            decls = [("let", vlo, t, ("lit", t, lo), True), ("let", vhi, t, ("lit", t, lo + n), True)]
            incl, step = False, None
            shape = r.random()
            if shape < 0.4:
                pass                                   # lo..hi, default step
            else:
                # inclusive bound and/or explicit step; the step is a literal (sign known to the compiler) or a local
                # (sign tested at run time); bounds stay far from the type limits, so the variable never wraps
                incl = r.random() < 0.6
                self.feat("for-inclusive" if incl else "for-exclusive-step")
                if r.random() < 0.75:
                    k = r.choice([1, 2, 3])
                    down = signed(t) and r.random() < 0.5
                    hi_v = lo + n * k if r.random() < 0.6 else lo + n * k + r.randint(0, k)   # end hit exactly, or stepped over
                    a, b = (hi_v, lo) if down else (lo, hi_v)
                    decls = [("let", vlo, t, ("lit", t, a), True), ("let", vhi, t, ("lit", t, b), True)]
                    sv = -k if down else k
                    self.feat("for-step-down" if down else "for-step-up")
                    if r.random() < 0.5:
                        step = ("lit", t, sv)
                    else:
                        vs = self.fresh()
                        env2[-1][vs] = (t, False)
                        decls.append(("let", vs, t, ("lit", t, sv), False))
                        step = ("var", vs)
                        self.feat("for-step-variable")
                        if r.random() < 0.5:
                            # the step is reassigned on a path that may or may not be taken: what the variable holds when the
                            # loop starts is not the last constant written to it in the text
                            other = r.choice([c_ for c_ in ([1, 2, 3] + ([-1, -2, -3] if signed(t) else [])) if c_ != sv])
                            decls.append(("if", self.bool_expr(env, 1, nonlit=True), [("assign", vs, ("lit", t, other))], []))
                            self.feat("for-step-reassigned")
            env3 = env2 + [{x: (t, True)}]           # the loop variable is immutable
            body = self.block(env3, d - 1, True, ret, r.randint(1, 4), protected | {x, vlo, vhi} | ({step[1]} if step and step[0] == "var" else set()))
            return ("block", decls + [("for", x, t, ("var", vlo), ("var", vhi), body, incl, step)])
        if c == "match" and self.enums and r.random() < 0.3:
            evs = [(x, ty) for sc in env for x, (ty, _) in sc.items() if is_enum(ty)]
            if evs:
                x, ty = r.choice(evs)
                n = ENUMS[eid_of(ty)]
                e = ("var", x) if r.random() < 0.7 else self.enum_expr(ty, env, 1)
                if r.random() < 0.4:
                    vals = list(range(n)); r.shuffle(vals); default = None        # every variant has an arm
                    if r.random() < 0.3: default = self.block(env, d - 1, inloop, ret, r.randint(1, 2), protected)
                else:
                    vals = r.sample(range(n), r.randint(1, n - 1))
                    default = self.block(env, d - 1, inloop, ret, r.randint(1, 3), protected)
                arms = [(v, self.block(env, d - 1, inloop, ret, r.randint(1, 3), protected)) for v in vals]
                self.feat("match-enum")
                return ("match", e, ty, arms, default)
        if c == "match":
            t = r.choice(self.itys)
            e = self.int_expr(t, env, r.randint(0, 2), nonlit=True)
            if r.random() < 0.6:
                # make hits likely: scrutinee reduced to a small range
                e = ("bin", "%", e, ("lit", t, 4))
                # the subject as written is a remainder, a cast, a negation or a call result: each is a different producer of
                # the value the switch lowering must know the type of (seed C09e: a cast as subject lost its type and every
                # value ran the default arm)
                c2 = r.random()
                if c2 < 0.3:
                    t2 = r.choice([x for x in self.itys if signed(x) == signed(t)] or self.itys)
                    e = ("cast", ("bin", "%", self.int_expr(t2, env, 1, nonlit=True), ("lit", t2, 4)), t)
                    self.feat("match-on-cast")
                elif c2 < 0.4 and signed(t):
                    e = ("un", "-", e); self.feat("match-on-negation")
                elif c2 < 0.55 and self.cands(env, lambda f: f[1] == t):
                    e = ("bin", "%", self.call_expr(t, env, 1), ("lit", t, 4)) if r.random() < 0.5 else self.call_expr(t, env, 1)
                    self.feat("match-on-call")
                vals = r.sample([0, 1, 2, 3] + ([-1, -2, -3] if signed(t) else []), r.randint(1, 3))
            else:
                vals = list({self.lit(t)[2] for _ in range(r.randint(1, 3))})
            arms = [(v, self.block(env, d - 1, inloop, ret, r.randint(1, 3), protected)) for v in vals]
            default = self.block(env, d - 1, inloop, ret, r.randint(1, 3), protected) if r.random() < 0.7 else None
            return ("match", e, t, arms, default)
        if c == "break": return ("break",)
        if c == "continue": return ("continue",)
        if c == "copyref":
            # let c: S = r;  (a by-value copy of what the reference designates)
            y = r.choice(sorted(self.refparams))
            t = [ty for sc in env for x, (ty, _) in sc.items() if x == y][0]
            x = self.fresh()
            env[-1][x] = (t, False)
            self.feat("copy-of-reference")
            return ("let", x, t, ("var", y), False)
        if c == "callstmt":
            k = r.choice(self.cands(env, lambda f: f[1] == "void"))
            return ("expr", ("call", k, self.call_args(k, env, 2)))
        if c == "return":
            return ("return", None if ret == "void" else self.expr(ret, env, r.randint(0, 2)))
        raise ValueError(c)

    def prelude(self, env):
        """one variable of every type at function entry, so that a non-literal operand always exists"""
        out = []
        for t in self.itys + ["bool"] + (["str"] if self.strings else []):
            x = self.fresh()
            e = ("bool", self.rng.random() < 0.5) if t == "bool" else (self.str_expr(env, 0) if t == "str" else self.lit(t))
            env[-1][x] = (t, False)
            out.append(("let", x, t, e, False))
        if self.enums:
            x = self.fresh()
            t = "E%d" % self.rng.randrange(len(ENUMS))
            env[-1][x] = (t, False)
            out.append(("let", x, t, ("elit", eid_of(t), self.rng.randrange(ENUMS[eid_of(t)])), False))
        if self.structs:
            for k in self.rng.sample(range(len(STRUCTS)), 2):
                x = self.fresh()
                t = "S%d" % k
                e = ("slit", k, [self.lit(ft) for ft in fields_of(t)])
                env[-1][x] = (t, False)
                out.append(("let", x, t, e, False))
        return out

    def function(self, k, force=None, caps=(), inner=None):
        """force = (parameter types, result type, method?) pins the signature (used for the evaluation-order kit).
        caps: indexes of parameters that stand for captured variables (closure kit): scalar ones are never assigned;
        inner: index of a kit function to be written as a function literal inside this body and called with this
        function's own captured parameters."""
        r = self.rng
        ret = r.choice(["void"] + [self.any_ty(with_struct=True)] * 3)
        rec = ret in ITYS and r.random() < 0.35
        params = []
        method = False
        if force is not None:
            pts, ret, method = force
            rec = False
            params = [(self.fresh(), t) for t in pts]
        if rec:
            params.append((self.fresh(), "i32"))
        if force is None and self.structs and not rec and r.random() < 0.35:
            method = True
            params.append((self.fresh(), "S%d" % r.choice(NAMED_SIDS)))      # a receiver is a named type
            self.feat("method")
        for _ in range(r.randint(0, 3) if force is None else 0):
            t = self.any_ty(with_struct=True)
            if self.refs and self.structs and not rec and r.random() < 0.22:
                t = "&S%d" % r.randrange(len(STRUCTS))
                self.feat("param-by-reference")
            params.append((self.fresh(), t))
        self.refparams = {x for x, t in params if is_mutref(t)}
        env = [{x: (base_ty(t), False) for x, t in params}]
        body = self.prelude(env)
        if rec:
            n = params[0][0]
            body.append(("if", ("bin", "<=", ("var", n), ("lit", "i32", 0)), [("return", self.expr(ret, env, 1))], []))
        for x in sorted(self.refparams):
            # write through the reference at least once (component store, compound store or whole-value store)
            t = env[0][x][0]
            k = r.randrange(len(fields_of(t)))
            ft = fields_of(t)[k]
            c = r.random()
            if c < 0.45: body.append(("assignf", x, k, self.int_expr(ft, env, 2), is_array(t)))
            elif c < 0.8: body.append(("cassignf", x, k, r.choice(["+", "-", "*"]), self.int_expr(ft, env, 1), is_array(t)))
            elif c < 0.92: body.append(("assign", x, ("slit", sid_of(t), [self.int_expr(f_, env, 1) for f_ in fields_of(t)])))
            self.feat("write-through-reference")
        prot = ({params[0][0]} if rec else set()) | {params[i][0] for i in caps if not is_mutref(params[i][1])}
        if inner is not None:
            body += self.closure_calls(inner, env, params[1][0], params[2][0], params[0][1], base_ty(params[1][1]))
        self.budget = r.randint(2, 8)
        body += self.block(env, min(2, self.max_depth), False, ret, r.randint(1, 5), prot)
        if body and body[-1][0] == "return":
            body.pop()
        if block_exits(body):
            # every path already returns: anything appended would be rejected as unreachable code
            self.fns.append(([t for _, t in params], ret, rec))
            return dict(params=params, ret=ret, body=body, method=method)
        env2 = env + [{}]
        # the block's own scope is gone: only params are visible for the final return
        if rec:
            # the only self call is f(n - 1, ...): operands are generated before the function is registered,
            # so that no other (unbounded) self call can appear in its own body
            n = params[0][0]
            args = [("bin", "-", ("var", n), ("lit", "i32", 1))] + [self.expr(t, env, 1) for _, t in params[1:]]
            other = self.int_expr(ret, env, 1)
            self.fns.append(([t for _, t in params], ret, True))
            final = ("bin", r.choice(["+", "-", "*"]), ("call", k, args), other)
            self.feat("recursion")
            body.append(("return", final))
            return dict(params=params, ret=ret, body=body)
        if ret != "void":
            body.append(("return", self.expr(ret, env, 2)))
        self.fns.append(([t for _, t in params], ret, False))
        return dict(params=params, ret=ret, body=body, method=method)

    def closure_calls(self, g, env, x, n, it, st):
        """the literal of kit function g, then calls of it with the aggregate x and the scalar n as its captured variables,
        interleaved with reads and writes of x by the enclosing function"""
        r = self.rng
        out = [("closure", g)]
        for _ in range(r.randint(1, 3)):
            self.stmt_used, self.stmt_lent = set(), {x}
            out.append(("print", [("call", g, [self.int_expr(it, env, 1), ("var", x), ("var", n)])]))
            self.stmt_used, self.stmt_lent = set(), set()
            out.append(("print", [("field", ("var", x), k_, is_array(st)) for k_ in range(min(3, len(fields_of(st))))]))
            if r.random() < 0.5:
                k_ = r.randrange(len(fields_of(st)))
                out.append(("assignf", x, k_, self.int_expr(fields_of(st)[k_], env, 1), is_array(st)))
            self.feat("closure-call")
        return out

    def program(self):
        r = self.rng
        self.fns = []
        self.closure_only = set()
        self.str_cat_budget = 6
        prog = []
        for k in range(r.randint(0, 3)):
            prog.append(self.function(k))
        kit = None
        if self.refs and self.structs and r.random() < 0.4:
            # evaluation-order kit: an aggregate passed by value (receiver or first argument) must be taken before a later
            # argument of the same call changes the variable through a reference:  x.m(g(&'x, e))  /  f(x, g(&'x, e))
            sid = r.randrange(len(STRUCTS))
            st, it = "S%d" % sid, r.choice(self.itys)
            ka = len(prog); prog.append(self.function(ka, force=([st, it], it, not is_array_sid(sid) and r.random() < 0.7)))
            kb = len(prog); prog.append(self.function(kb, force=(["&" + st, it], it, False)))
            kit = (st, it, ka, kb)
            self.feat("evaluation-order-kit")
        ckit = None
        if self.closures and self.refs and self.structs and r.random() < 0.4:
            # closure kit: main writes kit function G as a function literal capturing an aggregate and a scalar of main; G's
            # body writes kit function H as a nested literal capturing G's captured variables (variables of main, transitively)
            st, it, it2 = "S%d" % r.randrange(len(STRUCTS)), r.choice(self.itys), r.choice(self.itys)
            kh = len(prog); self.closure_only.add(kh)
            prog.append(self.function(kh, force=([it, "&" + st, it2], it, False), caps=(1, 2)))
            kg = len(prog); self.closure_only.add(kg)
            prog.append(self.function(kg, force=([it, "&" + st, it2], it, False), caps=(1, 2), inner=kh))
            prog[kh]["closure"] = {1: prog[kg]["params"][1][0], 2: prog[kg]["params"][2][0]}
            ckit = (st, it, it2, kg)
            self.feat("closure-kit")
        self.budget = self.max_stmts if getattr(self, "long_main", False) else r.randint(self.max_stmts // 3, self.max_stmts)
        self.refparams = set()
        env = [{}]
        body = self.prelude(env)
        if ckit:
            st, it, it2, kg = ckit
            x, n = self.fresh(), self.fresh()
            env[-1][x] = (st, False); env[-1][n] = (it2, False)
            body.append(("let", x, st, ("slit", sid_of(st), [self.lit(ft) for ft in fields_of(st)]), False))
            body.append(("let", n, it2, self.lit(it2), False))
            prog[kg]["closure"] = {1: x, 2: n}
            body += self.closure_calls(kg, env, x, n, it, st)
        if kit:
            st, it, ka, kb = kit
            x = self.fresh()
            env[-1][x] = (st, False)
            body.append(("let", x, st, ("slit", sid_of(st), [self.lit(ft) for ft in fields_of(st)]), False))
            for _ in range(r.randint(1, 2)):
                self.stmt_used, self.stmt_lent = set(), {x}
                inner = ("call", kb, [("var", x), self.int_expr(it, env, 1)])
                body.append(("print", [("call", ka, [("var", x), inner])]))
                body.append(("print", [("field", ("var", x), k_, is_array(st)) for k_ in range(min(3, len(fields_of(st))))]))
            self.stmt_used, self.stmt_lent = set(), set()
        body += self.block(env, self.max_depth, False, None, self.max_stmts, set())
        prog.append(dict(params=[], ret="void", body=body))
        return prog

# ------------------------------------------------------------------ shrinking (statement-level delta debugging)

def _paths(block, prefix=()):
    """all statement positions as paths: tuple of (index, field) steps"""
    out = []
    for i, s in enumerate(block):
        out.append(prefix + (i,))
        if s[0] == "if":
            out += _paths(s[2], prefix + (i, 2)) + _paths(s[3], prefix + (i, 3))
        elif s[0] == "while":
            out += _paths(s[2], prefix + (i, 2))
        elif s[0] == "block":
            out += _paths(s[1], prefix + (i, 1))
        elif s[0] == "for":
            out += _paths(s[5], prefix + (i, 5))
        elif s[0] == "match" and s[4] is not None:
            out += _paths(s[4], prefix + (i, 4))
    return out

def _remove(block, path):
    i = path[0]
    if len(path) == 1:
        return block[:i] + block[i + 1:]
    s = list(block[i])
    s[path[1]] = _remove(s[path[1]], path[2:])
    return block[:i] + [tuple(s)] + block[i + 1:]

def _hoist(block, path):
    """replace a compound statement by its (first) inner block"""
    i = path[0]
    if len(path) == 1:
        s = block[i]
        if s[0] in ("if", "while"): inner = s[2]
        elif s[0] == "block": inner = s[1]
        elif s[0] == "match" and s[4] is not None: inner = s[4]
        else: return None
        return block[:i] + list(inner) + block[i + 1:]
    s = list(block[i])
    r = _hoist(s[path[1]], path[2:])
    if r is None: return None
    s[path[1]] = r
    return block[:i] + [tuple(s)] + block[i + 1:]

def shrink(prog, pred, max_tests=150):
    """greedy: drop statements / hoist blocks / drop functions' bodies while pred(prog) stays true."""
    tests = 0
    changed = True
    while changed and tests < max_tests:
        changed = False
        for fi in range(len(prog)):
            body = prog[fi]["body"]
            for path in sorted(_paths(body), key=lambda p: (len(p), p), reverse=False):
                for op in (_remove, _hoist):
                    nb = op(body, path)
                    if nb is None: continue
                    cand = prog[:fi] + [dict(prog[fi], body=nb)] + prog[fi + 1:]
                    tests += 1
                    try:
                        ok = pred(cand)
                    except Exception:
                        ok = False
                    if ok:
                        prog = cand; changed = True
                        break
                    if tests >= max_tests: break
                if changed or tests >= max_tests: break
            if changed or tests >= max_tests: break
    return prog
