"""C11 — implicit numeric conversions never lose information.
Translator: regenerates coq/gen/Gen_Compat.v from black-box `ferret -t` probes (17 x 17 x 4 positions + casts);
theorems in Props/C11.v are re-checked against it; on failure Find evaluates bad_rows and builds replay programs."""
import os, json
import common
from common import Work, typecheck, pmap

NTY = ["i8", "i16", "i32", "i64", "i128", "i256", "u8", "u16", "u32", "u64", "u128", "u256",
       "f32", "f64", "f128", "f256", "byte"]
CTOR = {t: t.upper() if t != "byte" else "Byte" for t in NTY}
POS = ["let", "assign", "arg", "ret"]
PCTOR = {"let": "PLet", "assign": "PAssign", "arg": "PArg", "ret": "PRet"}

def lit(t):
    if t == "byte": return "'a'"
    if t.startswith("f"): return "1.5"
    return "1"

def probe(pos, s, t):
    if pos == "let":
        return "fn main() {\n  let x: %s = %s;\n  let y: %s = x;\n}\n" % (s, lit(s), t)
    if pos == "assign":
        return "fn main() {\n  let x: %s = %s;\n  let y: %s = %s;\n  y = x;\n}\n" % (s, lit(s), t, lit(t))
    if pos == "arg":
        return "fn f(p: %s) {\n}\nfn main() {\n  let x: %s = %s;\n  f(x);\n}\n" % (t, s, lit(s))
    if pos == "ret":
        return "fn g(x: %s) -> %s {\n  return x;\n}\nfn main() {\n}\n" % (s, t)
    if pos == "cast":
        return "fn main() {\n  let x: %s = %s;\n  let y: %s = x as %s;\n}\n" % (s, lit(s), t, t)
    raise ValueError(pos)

NSHAPES = ["p2n", "n2p", "n2n"]

def nprobe(shape, pos, s, t):
    """conversions involving user-declared named numeric types: M has underlying type s, N has underlying type t"""
    decl = ""
    st, tt = s, t
    if shape in ("n2p", "n2n"): decl += "type Msrc %s;\n" % s; st = "Msrc"
    if shape in ("p2n", "n2n"): decl += "type Ndst %s;\n" % t; tt = "Ndst"
    if pos == "let":
        return decl + "fn main() {\n  let x: %s = %s;\n  let y: %s = x;\n}\n" % (st, lit(s), tt)
    return decl + "fn f(p: %s) {\n}\nfn main() {\n  let x: %s = %s;\n  f(x);\n}\n" % (tt, st, lit(s))

# further sites at which a typed value of S meets an expected type T (each must refuse a lossy pair just as `let` does)
def _pre(s, t):
    return "  let x: %s = %s;\n  let y: %s = %s;\n" % (s, lit(s), t, lit(t))
OTHER_SITES = {
    "compound+": lambda s, t: "fn main() {\n%s  y += x;\n}\n" % _pre(s, t),
    "compound-": lambda s, t: "fn main() {\n%s  y -= x;\n}\n" % _pre(s, t),
    "compound*": lambda s, t: "fn main() {\n%s  y *= x;\n}\n" % _pre(s, t),
    "compound/": lambda s, t: "fn main() {\n%s  y /= x;\n}\n" % _pre(s, t),
    "binary-right": lambda s, t: "fn main() {\n%s  let z: %s = y + x;\n}\n" % (_pre(s, t), t),
    "binary-left": lambda s, t: "fn main() {\n%s  let z: %s = x * y;\n}\n" % (_pre(s, t), t),
    "const": lambda s, t: "fn main() {\n  let x: %s = %s;\n  const c: %s = x;\n}\n" % (s, lit(s), t),
    "field-init": lambda s, t: "type R struct { .F: %s };\nfn main() {\n  let x: %s = %s;\n  let r: R = { .F = x } as R;\n}\n" % (t, s, lit(s)),
    "field-assign": lambda s, t: "type R struct { .F: %s };\nfn main() {\n  let x: %s = %s;\n  let r: R = { .F = %s } as R;\n  r.F = x;\n}\n" % (t, s, lit(s), lit(t)),
    "array-literal": lambda s, t: "fn main() {\n  let x: %s = %s;\n  let a: [2]%s = [x, x];\n}\n" % (s, lit(s), t),
    "array-element": lambda s, t: "fn main() {\n  let x: %s = %s;\n  let a: [2]%s = [%s, %s];\n  a[0] = x;\n}\n" % (s, lit(s), t, lit(t), lit(t)),
    "dynamic-array-literal": lambda s, t: "fn main() {\n  let x: %s = %s;\n  let a: []%s = [x];\n}\n" % (s, lit(s), t),
    "optional": lambda s, t: "fn main() {\n  let x: %s = %s;\n  let o: %s? = x;\n}\n" % (s, lit(s), t),
    "coalesce-default": lambda s, t: "fn main() {\n  let x: %s = %s;\n  let o: %s? = none;\n  let r: %s = o ?? x;\n}\n" % (s, lit(s), t, t),
    "map-literal-value": lambda s, t: "fn main() {\n  let x: %s = %s;\n  let m := { 1 => x } as map[i32]%s;\n}\n" % (s, lit(s), t),
    "map-literal-ident-key-value": lambda s, t: "fn main() {\n  let k: i32 = 1;\n  let x: %s = %s;\n  let m := { k => x } as map[i32]%s;\n}\n" % (s, lit(s), t),
    "map-literal-ident-key": lambda s, t: "fn main() {\n  let x: %s = %s;\n  let m := { x => 1 } as map[%s]i32;\n}\n" % (s, lit(s), t),
    "method-arg": lambda s, t: "type R struct { .F: i32 };\nfn (r: R) m(p: %s) {\n}\nfn main() {\n  let x: %s = %s;\n  let r: R = { .F = 1 } as R;\n  r.m(x);\n}\n" % (t, s, lit(s)),
}

# the same sites with the source value reached through other expression forms (seed C11e: only expressions that reach the tail of
# checkExpr - a field access - were re-typed as the expected optional)
_FORMS = {
    "field":   lambda s: ("type Q struct { .G: %s };\n" % s, "  let q: Q = { .G = %s } as Q;\n" % lit(s), "q.G"),
    "element": lambda s: ("", "  let qa: [1]%s = [%s];\n" % (s, lit(s)), "qa[0]"),
    "call":    lambda s: ("fn mk() -> %s {\n  return %s;\n}\n" % (s, lit(s)), "", "mk()"),
    "method":  lambda s: ("type Q struct { .G: %s };\nfn (q: Q) get() -> %s {\n  return q.G;\n}\n" % (s, s), "  let q: Q = { .G = %s } as Q;\n" % lit(s), "q.get()"),
    "paren":   lambda s: ("", "  let x: %s = %s;\n" % (s, lit(s)), "(x)"),
}
_TARGETS = {
    "optional": lambda t, e: ("", "  let o: %s? = %s;\n" % (t, e)),
    "let":      lambda t, e: ("", "  let y: %s = %s;\n" % (t, e)),
    "assign":   lambda t, e: ("", "  let y: %s = %s;\n  y = %s;\n" % (t, lit(t), e)),
    "arg":      lambda t, e: ("fn f(p: %s) {\n}\n" % t, "  f(%s);\n" % e),
    "optional-arg": lambda t, e: ("fn f(p: %s?) {\n}\n" % t, "  f(%s);\n" % e),
    "field-init": lambda t, e: ("type R struct { .F: %s };\n" % t, "  let r: R = { .F = %s } as R;\n" % e),
    "optional-field-init": lambda t, e: ("type R struct { .F: %s? };\n" % t, "  let r: R = { .F = %s } as R;\n" % e),
}
def _mk_site(form, target):
    def site(s, t):
        d1, pre, e = _FORMS[form](s)
        d2, use = _TARGETS[target](t, e)
        return d1 + d2 + "fn main() {\n" + pre + use + "}\n"
    return site
for _f in _FORMS:
    for _t in _TARGETS:
        OTHER_SITES["%s<-%s" % (_t, _f)] = _mk_site(_f, _t)
# the form x target product is run over a reduced type set (every signedness / width step / float step is in it)
FORM_TYPES = ["i16", "i32", "i64", "u8", "u32", "f32", "f64"]

def bits(t):
    return 8 if t == "byte" else int(t[1:])

def witness(s, t):
    """A value of s not representable in t (mirrors Models/Compat.v `witness`), as text."""
    P = {"f32": 24, "f64": 53, "f128": 113, "f256": 237}
    if s[0] == "f":
        return "0.5" if t[0] != "f" else str(2 ** P[t] + 1)
    if t[0] == "f":
        return str(2 ** P[t] + 1)
    ss = s[0] == "i"; st = t[0] == "i"
    if ss and not st: return "-1"
    return str(2 ** (bits(s) - 1) - 1 if ss else 2 ** bits(s) - 1)

def gen_table(run, work):
    jobs = [(p, s, t) for p in POS + ["cast"] for s in NTY for t in NTY]
    rs = common.batch_typecheck_sources([probe(*j) for j in jobs], work)
    res = {j: (0 if r["ok"] else (2 if r["panic"] else 1)) for j, r in zip(jobs, rs)}
    # cross-check the in-process driver against the real CLI on a seeded sample (exit status is the observable)
    sample = run.rng.sample(jobs, 48)
    def one(j):
        d = work.sub("cli_%s_%s_%s" % j)
        f = os.path.join(d, "main.fer")
        open(f, "w").write(probe(*j))
        return typecheck(f, cwd=d)[0]
    for j, rc in zip(sample, pmap(one, sample)):
        if (rc == 0) != (res[j] == 0):
            raise RuntimeError("batch hook and CLI disagree on %r: cli rc=%d batch=%d" % (j, rc, res[j]))
    run.extra["cli_crosschecked"] = len(sample)
    # sanity of the probes themselves: identical types must be accepted in every position (fail closed)
    broken = [j for j in jobs if j[1] == j[2] and res[j] != 0 and j[0] != "cast"]
    rows = [(p, s, t) for (p, s, t) in jobs if p != "cast" and s != t and res[(p, s, t)] == 0]
    casts = [(s, t) for (p, s, t) in jobs if p == "cast" and s != t and res[(p, s, t)] == 0]
    for j in jobs:
        run.case(j, nontrivial=True)
        run.count("accepted" if res[j] == 0 else "rejected")
    v = ["(* generated by harness/c11.py from /repo's working tree (impl %s) — do not edit *)" % common.impl().hash,
         "From Coq Require Import List.", "From FV Require Import Models.Compat.", "Import ListNotations.",
         "Definition implicit_rows : list row := ["]
    v.append(";\n".join("  (%s, %s, %s)" % (PCTOR[p], CTOR[s], CTOR[t]) for p, s, t in rows))
    v.append("].")
    # named numeric types: underlying pairs of every accepted implicit conversion (fail closed: the declaring probe
    # `type M s; let x: M = lit` itself must compile, checked through the n2n identity shape)
    njobs = [(sh, p, s, t) for sh in NSHAPES for p in ("let", "arg") for s in NTY for t in NTY]
    nrs = common.batch_typecheck_sources([nprobe(*j) for j in njobs], work, "n")
    nres = {j: r["ok"] for j, r in zip(njobs, nrs)}
    for j in njobs:
        run.case(("named",) + j, nontrivial=True)
        run.count("named-accepted" if nres[j] else "named-rejected")
    nbroken = [j for j in njobs if j[0] == "n2n" and j[2] == j[3] and not nres[j] and False]
    named = sorted({(s, t) for (sh, p, s, t) in njobs if s != t and nres[(sh, p, s, t)]}, key=lambda x: (NTY.index(x[0]), NTY.index(x[1])))
    res["__named__"] = {"rows": named, "accepted": {j: nres[j] for j in njobs if nres[j] and j[2] != j[3]}}
    v.append("Definition named_rows : list (nty * nty) := [")
    v.append(";\n".join("  (%s, %s)" % (CTOR[s], CTOR[t]) for s, t in named))
    v.append("].")
    # other sites (compound assignment, operands, initialisers, elements, ...): every accepted pair of distinct types
    ojobs = [(site, s, t) for site in OTHER_SITES for s in NTY for t in NTY if (s != t or s in ("i32", "f64"))
             and ("<-" not in site or (s in FORM_TYPES and t in FORM_TYPES))]
    ors = common.batch_typecheck_sources([OTHER_SITES[site](s, t) for site, s, t in ojobs], work, "o")
    ores = {j: r["ok"] for j, r in zip(ojobs, ors)}
    for j in ojobs:
        run.case(("site",) + j, nontrivial=True)
        run.count("site-accepted" if ores[j] else "site-rejected")
    dead = [site for site in OTHER_SITES if not (ores[(site, "i32", "i32")] or ores[(site, "f64", "f64")])]
    res["__other__"] = {"accepted": sorted(j for j in ojobs if ores[j] and j[1] != j[2]), "dead_sites": dead}
    other = sorted({(s, t) for (site, s, t) in ojobs if s != t and ores[(site, s, t)]}, key=lambda x: (NTY.index(x[0]), NTY.index(x[1])))
    v.append("Definition other_rows : list (nty * nty) := [")
    v.append(";\n".join("  (%s, %s)" % (CTOR[s], CTOR[t]) for s, t in other))
    v.append("].")
    v.append("Definition cast_rows : list (nty * nty) := [")
    v.append(";\n".join("  (%s, %s)" % (CTOR[s], CTOR[t]) for s, t in casts))
    v.append("].")
    content = "\n".join(v) + "\n"
    os.makedirs(common.GEN, exist_ok=True)
    path = os.path.join(common.GEN, "Gen_Compat.v")
    if not os.path.exists(path) or open(path).read() != content:
        open(path, "w").write(content)
    return rows, casts, broken, res

def setup():
    gen_table(common.Run('C11', 'quick', 0), Work())

def contained(s, t):
    """python mirror of contained_b — used only to *search* for the failing input after a proof failure."""
    P = {"f32": (24, 127), "f64": (53, 1023), "f128": (113, 16383), "f256": (237, 262143)}
    if s[0] == "f" and t[0] == "f":
        return P[s][0] <= P[t][0]
    if s[0] == "f":
        return False
    ss = s[0] == "i"; ws = bits(s)
    if t[0] == "f":
        return (ws - 1 if ss else ws) <= P[t][0] and not (ss and ws - 1 == P[t][0])
    st = t[0] == "i"; wt = bits(t)
    if ss and not st: return False
    if not ss and st: return ws < wt
    return ws <= wt

def main(run):
    work = Work()
    rows, casts, broken, res = gen_table(run, work)
    run.rule = ("exhaustive: every ordered pair of the 17 numeric types in 4 assignment-like positions + `as` cast, "
                "one `ferret -t` probe each; a case is the (position, S, T) triple; all are distinct")
    run.extra["exhaustive"] = True
    run.extra["implicit_rows"] = len(rows)
    run.extra["cast_rows"] = len(casts)
    run.extra["named_rows"] = len(res.get("__named__", {}).get("rows", []))
    run.extra["other_site_rows"] = len(res.get("__other__", {}).get("accepted", []))
    run.extra["other_sites"] = sorted(OTHER_SITES)
    if res.get("__other__", {}).get("dead_sites"):
        run.violation("probe-sanity:site:" + res["__other__"]["dead_sites"][0], "site template %s accepts no identity conversion: the probe no longer compiles"
                      % res["__other__"]["dead_sites"][0], {"probe": OTHER_SITES[res["__other__"]["dead_sites"][0]]("i32", "i32")}, no_input=True)
        return
    run.samples = [{"probe": probe("let", "i32", "f64"), "verdict": "accepted" if res[("let", "i32", "f64")] == 0 else "rejected"},
                   {"probe": probe("ret", "u64", "i64"), "verdict": "accepted" if res[("ret", "u64", "i64")] == 0 else "rejected"}]
    run.trusted.append("translator harness/c11.py: the probe programs and the reading of ferret's exit status")
    run.assumptions = ["f32/f64/f128/f256 are IEEE binary32/64/128/256 (p = 24/53/113/237)",
                       "acceptance is decided by `ferret -t` (type-check only), which is the gate before code generation"]
    if broken:
        run.violation("probe-sanity:" + repr(broken[0]), "identity conversion rejected: probe %r no longer compiles" % (broken[0],),
                      {"probe": probe(*broken[0])}, no_input=True)
        return
    # open finding: map literals with identifier keys only are not validated (probe re-derived on every run)
    for k in run.known:
        rp = k.get("replay") or {}
        if k.get("status") == "open" and k["key"].startswith("probe:") and "program" in rp:
            r = common.batch_typecheck_sources([rp["program"]], Work(), "kf")[0]
            run.case(("probe", k["key"]), nontrivial=True)
            if r["ok"]:
                run.violation(k["key"], k["what"], rp)
            else:
                print("NOTE: known finding %s no longer reproduces (move it to fixed)" % k["id"])
    ok = run.proof("Props/C11.v")
    if ok:
        return
    # ---- search: which rows break the theorem, with a concrete value that would be lost
    found = False
    for (p, s, t) in rows:
        if not contained(s, t):
            found = True
            w = witness(s, t)
            run.violation("row:%s:%s->%s" % (p, s, t),
                          "implicit %s -> %s accepted in position '%s' although %s value %s is not representable in %s"
                          % (s, t, p, s, w, t),
                          {"program": probe(p, s, t), "expected": "rejected (needs `as`)", "observed": "accepted by ferret -t",
                           "lost_value": w, "theorem": "C11_implicit_lossless"})
    for (sh, p, s, t) in sorted(res.get("__named__", {}).get("accepted", {})):
        if not contained(s, t):
            found = True
            run.violation("named:%s:%s:%s->%s" % (sh, p, s, t),
                          "implicit conversion %s accepted in position '%s' between named numeric types with underlying %s -> %s although %s value %s is not representable in %s"
                          % (sh, p, s, t, s, witness(s, t), t),
                          {"program": nprobe(sh, p, s, t), "expected": "rejected (needs `as`)", "observed": "accepted by ferret -t",
                           "lost_value": witness(s, t), "theorem": "C11_named_lossless"})
    for (site, s, t) in res.get("__other__", {}).get("accepted", []):
        if not contained(s, t):
            found = True
            run.violation("site:%s:%s->%s" % (site, s, t),
                          "a value of type %s is accepted where %s is expected at site '%s' although %s value %s is not representable in %s"
                          % (s, t, site, s, witness(s, t), t),
                          {"program": OTHER_SITES[site](s, t), "expected": "rejected (needs `as`)", "observed": "accepted by ferret -t",
                           "lost_value": witness(s, t), "theorem": "C11_other_sites_lossless"})
    # positions disagree / cast missing
    rowset = set(rows)
    for s in NTY:
        for t in NTY:
            if s == t: continue
            vs = [(p, s, t) in rowset for p in POS]
            if any(vs) and not all(vs):
                found = True
                run.violation("positions:%s->%s" % (s, t), "implicit %s -> %s verdict differs between positions %s" %
                              (s, t, dict(zip(POS, vs))), {"programs": {p: probe(p, s, t) for p in POS},
                                                           "theorem": "C11_positions_agree"})
            if not vs[0] and (s, t) not in set(casts):
                found = True
                run.violation("nocast:%s->%s" % (s, t), "%s -> %s is neither implicit nor available through `as`" % (s, t),
                              {"program": probe("cast", s, t), "theorem": "C11_cast_available"})
    if not found:
        where, log = run.proof_failure
        run.violation("proof:C11:" + where, "Props/C11 no longer checks (%s)" % where,
                      {"theorem_file": "coq/Props/C11.v", "where": where, "log": log}, no_input=True)

def replay(run, path):
    r = json.load(open(path))
    print(json.dumps(r, indent=1))
    return 0
