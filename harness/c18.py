"""C18 — composite values keep every component intact (layout soundness).

 (a) proof stage: Props/C18.v (theorems about Models/Layout.v, the port of internal/mir/layout.go + consumers)
 (b) tie 1: hook `layout` evaluates the real DataLayout (pointer sizes 4 and 8) on generated type expressions;
            the model's `describe` is evaluated by vm_compute on the same expressions and compared (whole tree:
            every SizeOf / AlignOf / field offset); a spec-side oracle checks the property's layout conditions
            directly on the implementation's numbers (independent of the model);
     tie 2: generated programs write a distinct value into every component of generated struct / nested struct /
            [N]struct / optional / result values in random order, read everything back after each write
            (with sentinel variables around and a copy), native and wasm; expectation = abstract record semantics.
 (c) search: a disagreeing / failing case is shrunk to a small type (or scenario) and reported with its replay.
"""
import os, json, subprocess, hashlib, re
import common
from common import Work

WIDTH_PRIMS = {1: ["i8", "u8", "bool", "byte"], 2: ["i16", "u16"], 4: ["i32", "u32", "f32"], 8: ["i64", "u64", "f64"],
               16: ["i128", "u128", "f128"], 32: ["i256", "u256", "f256"]}
WIDTHS = [1, 2, 4, 8, 16, 32]

# ------------------------------------------------------------------ type expressions
# ("p", name) ("s", [t..]) ("a", n, t) ("o", t) ("r", ok, err) ("ref", t) ("map", k, v) ("fn",) ("iface", m)
# ("enum", n) ("u", [t..]) ("named", t)

def tjson(t):
    k = t[0]
    if k == "p": return {"k": "p", "n": t[1]}
    if k == "s": return {"k": "s", "f": [tjson(x) for x in t[1]]}
    if k == "a": return {"k": "a", "n": t[1], "e": tjson(t[2])}
    if k == "o": return {"k": "o", "e": tjson(t[1])}
    if k == "r": return {"k": "r", "ok": tjson(t[1]), "err": tjson(t[2])}
    if k == "ref": return {"k": "ref", "e": tjson(t[1])}
    if k == "map": return {"k": "map", "key": tjson(t[1]), "val": tjson(t[2])}
    if k == "fn": return {"k": "fn"}
    if k == "iface": return {"k": "iface", "m": t[1]}
    if k == "enum": return {"k": "enum", "n": t[1]}
    if k == "u": return {"k": "u", "v": [tjson(x) for x in t[1]]}
    if k == "named": return {"k": "named", "e": tjson(t[1])}
    raise ValueError(t)

def tstr(t):
    """canonical text of a type expression (Ferret-like)"""
    k = t[0]
    if k == "p": return t[1]
    if k == "s": return "struct{" + ",".join(tstr(x) for x in t[1]) + "}"
    if k == "a": return ("[%d]" % t[1] if t[1] >= 0 else "[]") + tstr(t[2])
    if k == "o": return "(" + tstr(t[1]) + ")?"
    if k == "r": return "(" + tstr(t[2]) + " ! " + tstr(t[1]) + ")"
    if k == "ref": return "&" + tstr(t[1])
    if k == "map": return "map[%s]%s" % (tstr(t[1]), tstr(t[2]))
    if k == "fn": return "fn()"
    if k == "iface": return "interface{%d}" % t[1]
    if k == "enum": return "enum{%d}" % t[1]
    if k == "u": return "union{" + ",".join(tstr(x) for x in t[1]) + "}"
    if k == "named": return "named(" + tstr(t[1]) + ")"
    raise ValueError(t)

def tenc(t, node, prims):
    """prefix code of Models/Layout.decode; sizes of `default:`-branch types are the Size() the implementation reports (fe)"""
    k = t[0]
    if k == "p":
        if t[1] == "str": return [2]
        if t[1] in ("void", "none"): return [1]
        return [0, prims[t[1]]]
    if k == "s":
        out = [7, len(t[1])]
        for x, c in zip(t[1], node.get("c", [])): out += tenc(x, c, prims)
        return out
    if k == "a": return [4, t[1]] + tenc(t[2], node["c"][0], prims)
    if k == "o": return [5] + tenc(t[1], node["c"][0], prims)
    if k == "r": return [6] + tenc(t[1], node["c"][0], prims) + tenc(t[2], node["c"][1], prims)
    if k in ("ref", "map"): return [2]
    if k == "iface": return [2] if t[1] == 0 else [3]
    if k in ("fn", "enum", "u"): return [0, node["fe"]]
    if k == "named": return tenc(t[1], node, prims)
    raise ValueError(t)

def flatten(t, node):
    """the implementation's tree in the order of Models/Layout.describe"""
    k = t[0]
    if k == "named": return flatten(t[1], node)
    out = [node["s"], node["a"]]
    if k == "s":
        out += node.get("o", [])
        for x, c in zip(t[1], node.get("c", [])): out += flatten(x, c)
    elif k == "a": out += flatten(t[2], node["c"][0])
    elif k == "o": out += flatten(t[1], node["c"][0])
    elif k == "r": out += flatten(t[1], node["c"][0]) + flatten(t[2], node["c"][1])
    return out

def depth(t):
    k = t[0]
    if k == "s": return 1 + max([depth(x) for x in t[1]] + [0])
    if k == "a": return 1 + depth(t[2])
    if k == "o": return 1 + depth(t[1])
    if k == "r": return 1 + max(depth(t[1]), depth(t[2]))
    if k == "u": return 1 + max([depth(x) for x in t[1]] + [0])
    if k == "named": return depth(t[1])
    return 0

def kinds(t, acc):
    acc.add(t[0] if t[0] != "p" else "p:" + t[1])
    for x in t[1:]:
        if isinstance(x, tuple): kinds(x, acc)
        elif isinstance(x, list):
            for y in x: kinds(y, acc)
    return acc

def has_kind(t, k):
    return k in kinds(t, set())

# ------------------------------------------------------------------ spec-side oracle on the implementation's numbers

def align_to(v, a):
    if a <= 1: return v
    r = v % a
    return v if r == 0 else v + (a - r)

def oracle(t, n, path="T"):
    """Layout conditions of C18 checked on what the implementation answered (no model involved).
    Returns list of (path, message)."""
    k = t[0]
    if k == "named": return oracle(t[1], n, path)
    bad = []
    s, a = n["s"], n["a"]
    if a < 1: bad.append((path, "alignment %d is not positive" % a))
    if s < 0: bad.append((path, "size %d is negative" % s))
    if a >= 1 and (a & (a - 1)) != 0 and k not in ("u", "enum", "fn"): bad.append((path, "alignment %d is not a power of two" % a))
    if a >= 1 and s >= 0 and s % a != 0 and k not in ("u",): bad.append((path, "size %d is not a multiple of alignment %d (array elements would be misplaced)" % (s, a)))
    cs = n.get("c", [])
    if k == "s":
        offs = n.get("o", [])
        if len(offs) != len(t[1]):
            bad.append((path, "%d offsets for %d fields" % (len(offs), len(t[1]))))
            return bad
        cur = 0
        for i, (o, c) in enumerate(zip(offs, cs)):
            if o < cur:
                bad.append((path, "field %d at offset %d overlaps the previous field ending at %d" % (i, o, cur)))
            if c["a"] >= 1 and o % c["a"] != 0:
                bad.append((path, "field %d at offset %d is not aligned to %d" % (i, o, c["a"])))
            if c["a"] >= 1 and a >= 1 and a % c["a"] != 0:
                bad.append((path, "struct alignment %d is not a multiple of field %d's alignment %d" % (a, i, c["a"])))
            cur = max(cur, o + max(c["s"], 0))
        if cur > s: bad.append((path, "last field ends at %d beyond the struct size %d" % (cur, s)))
        for i, (x, c) in enumerate(zip(t[1], cs)): bad += oracle(x, c, "%s.F%d" % (path, i))
    elif k == "a":
        c = cs[0]
        if t[1] >= 0:
            if s != t[1] * c["s"]: bad.append((path, "array size %d differs from %d elements of stride %d (the element address is i*%d)" % (s, t[1], c["s"], c["s"])))
            if a >= 1 and c["a"] >= 1 and a % c["a"] != 0: bad.append((path, "array alignment %d does not satisfy the element alignment %d" % (a, c["a"])))
        bad += oracle(t[2], c, path + "[]")
    elif k == "o":
        c = cs[0]
        # flag byte at SizeOf(inner): emitOptionalSome/IsSome, optional.c, map.c
        if c["s"] + 1 > s: bad.append((path, "optional flag byte at offset %d lies outside the optional of size %d" % (c["s"], s)))
        if a >= 1 and c["a"] >= 1 and a % c["a"] != 0: bad.append((path, "optional alignment %d does not satisfy the payload alignment %d" % (a, c["a"])))
        bad += oracle(t[1], c, path + "?")
    elif k == "r":
        ok, er = cs
        ua = max(ok["a"], er["a"], 1)
        tag = align_to(max(ok["s"], er["s"]), ua)          # resultTagOffset
        if tag < max(ok["s"], er["s"]): bad.append((path, "result tag at %d inside the payload of size %d" % (tag, max(ok["s"], er["s"]))))
        if tag + 1 > s: bad.append((path, "result tag byte at offset %d lies outside the result of size %d" % (tag, s)))
        for nm, c in (("ok", ok), ("err", er)):
            if a >= 1 and c["a"] >= 1 and a % c["a"] != 0: bad.append((path, "result alignment %d does not satisfy the %s alignment %d" % (a, nm, c["a"])))
        bad += oracle(t[1], ok, path + ".ok") + oracle(t[2], er, path + ".err")
    elif k == "u":
        # boxUnionValue / emitUnionExtract: 4-byte tag at 0, variant data at offset 4, SizeOf(variant) bytes copied
        need = 4 + max([c["s"] for c in cs] + [0])
        if need > s: bad.append((path, "union of size %d cannot hold its largest variant: tag 4 + %d = %d bytes are written" % (s, need - 4, need)))
        for i, (x, c) in enumerate(zip(t[1], cs)): bad += oracle(x, c, "%s|%d" % (path, i))
    return bad

# ------------------------------------------------------------------ generators

def prim_of_width(rng, w):
    return ("p", rng.choice(WIDTH_PRIMS[w]))

def gen_leaf(rng, exotic):
    r = rng.random()
    if r < 0.80 or not exotic:
        return prim_of_width(rng, rng.choice(WIDTHS))
    return rng.choice([("p", "str"), ("ref", ("p", "i32")), ("map", ("p", "i32"), ("p", "i64")), ("fn",), ("iface", 0),
                       ("iface", 2), ("enum", 3), ("a", -1, ("p", "u8")), ("p", "void")])

def gen_type(rng, d, exotic=True, top=False):
    """random type expression of nesting depth <= d"""
    if d <= 0:
        return gen_leaf(rng, exotic)
    r = rng.random()
    if top or r < 0.40:
        n = rng.choice([0, 1, 2, 2, 3, 3, 4, 5, 6]) if not top else rng.choice([2, 3, 4, 5, 6])
        return ("s", [gen_type(rng, rng.choice([0, 0, 0, d - 1, d - 1]), exotic) for _ in range(n)])
    if r < 0.55:
        return ("a", rng.choice([0, 1, 2, 3, 4, 7]), gen_type(rng, d - 1, exotic))
    if r < 0.72:
        return ("o", gen_type(rng, rng.choice([0, d - 1]), exotic))
    if r < 0.84:
        return ("r", gen_type(rng, rng.choice([0, d - 1]), exotic), gen_type(rng, rng.choice([0, 0, d - 1]), exotic))
    if r < 0.88 and exotic:
        return ("named", gen_type(rng, d - 1, exotic))
    return gen_leaf(rng, exotic)

def systematic_types():
    """every width sequence of length 1..3 as a struct, alone and followed by an optional / a result / wrapped"""
    P = {w: ("p", WIDTH_PRIMS[w][0]) for w in WIDTHS}
    out = []
    for w in WIDTHS:
        out += [P[w], ("o", P[w]), ("a", 3, P[w]), ("o", ("o", P[w])), ("s", [P[w]]), ("o", ("s", [P[w], P[1]]))]
        for v in WIDTHS:
            out += [("r", P[w], P[v]), ("s", [P[w], P[v]]), ("s", [P[w], ("o", P[v])]), ("s", [("o", P[w]), P[v]]),
                    ("a", 2, ("s", [P[w], P[v]])), ("o", ("s", [P[w], P[v]])), ("s", [P[1], ("r", P[w], P[v]), P[1]]),
                    ("r", ("s", [P[w], P[v]]), P[1]), ("a", 3, ("o", ("s", [P[v], P[w], P[1]])))]
            for u in WIDTHS:
                out += [("s", [P[w], P[v], P[u]]), ("s", [P[w], P[v], P[u], ("o", P[8])]),
                        ("s", [P[w], ("s", [P[v], P[u]]), P[1]])]
    return out

# ------------------------------------------------------------------ hook

def run_hook(hook, lines, timeout=300):
    p = subprocess.run([hook], input=("".join(json.dumps(l) + "\n" for l in lines)).encode(), stdout=subprocess.PIPE,
                       stderr=subprocess.PIPE, timeout=timeout)
    if p.returncode != 0:
        raise RuntimeError("layout hook failed: " + p.stderr.decode("utf8", "replace")[-2000:])
    return [json.loads(l) for l in p.stdout.decode().splitlines() if l.strip()]

def hook_types(hook, ts):
    """-> list of dict(l4, l8) or dict(panic)"""
    res = run_hook(hook, [{"id": i, "t": tjson(t)} for i, t in enumerate(ts)])
    byid = {r["id"]: r for r in res}
    return [byid[i] for i in range(len(ts))]

def gen_prims(hook):
    prims = run_hook(hook, [{"prims": True}])[0]["prims"]
    fn = hook_types(hook, [("fn",), ("enum", 3)])
    val = sorted(set(v for k, v in prims.items() if k not in ("str", "void", "none", "unknown")))
    v = ["(* generated by harness/c18.py from /repo's working tree (types.NewPrimitive(name).Size()) - do not edit *)",
         "From Coq Require Import ZArith List String.", "Import ListNotations.", "Open Scope Z_scope.", "Open Scope string_scope.",
         "Definition prim_table : list (string * Z) := ["]
    v.append(";\n".join('  ("%s", (%d)%%Z)' % (k, prims[k]) for k in sorted(prims)))
    v.append("].")
    v.append("(* sizes of the value-carrying primitives (everything except str / void / none / unknown) *)")
    v.append("Definition prim_sizes : list Z := [" + "; ".join(str(x) for x in val) + "].")
    v.append("(* Size() of a function value and of a payload-free enum (layout.go `default:` branch) *)")
    v.append("Definition other_sizes : list Z := [%d; %d]." % (fn[0]["l8"]["fe"], fn[1]["l8"]["fe"]))
    content = "\n".join(v) + "\n"
    os.makedirs(common.GEN, exist_ok=True)
    path = os.path.join(common.GEN, "Gen_C18Prims.v")
    if not os.path.exists(path) or open(path).read() != content:
        open(path, "w").write(content)
    return prims

def setup():
    hook = common.build_hook("layout")
    gen_prims(hook)

# ------------------------------------------------------------------ tie 1: layout correspondence

def chk(l):
    """Models/Layout.chk"""
    acc = 7
    for x in l:
        acc = (acc * 257 + (x + 12345)) & 281474976710655
    return acc

def enc_str(ints):
    """one character per integer (code + 40), None if an integer is out of the encodable range"""
    out = []
    for x in ints:
        c = x + 40
        if c < 39 or c > 126 or c == 34: return None
        out.append(chr(c))
    return "".join(out)

def coq_sums(name, encs):
    """encs: list of encoded type strings -> list of (sum4, sum8) computed by the model (vm_compute)"""
    v = ["From Coq Require Import ZArith List String.", "From FV Require Import Models.Layout.", "Import ListNotations.",
         "Open Scope string_scope.", "Definition cases : list string := ["]
    v.append(";\n".join('  "%s"' % e for e in encs))
    v.append("].")
    v.append("Eval vm_compute in (all_sums cases).")
    ok, out = common.coq_eval(name, "\n".join(v) + "\n")
    m = re.search(r"=\s*(\[[^\]]*\]|nil)\s*(?:%\w+)?\s*:\s*list\s+Z", out, re.S)
    if not ok or not m:
        raise RuntimeError("coq evaluation of the layout cases failed:\n" + out[-3000:])
    xs = [int(x) for x in re.findall(r"-?\d+", m.group(1).replace("%Z", ""))]
    if len(xs) != 2 * len(encs):
        raise RuntimeError("coq returned %d sums for %d cases" % (len(xs), len(encs)))
    return [(xs[2 * i], xs[2 * i + 1]) for i in range(len(encs))]

def check_types(run, hook, ts, prims, label):
    """Runs hook + model + oracle over ts. Returns list of failures: dict(kind, t, ps, msgs)."""
    res = hook_types(hook, ts)
    fails = []
    cases = []
    for i, (t, r) in enumerate(zip(ts, res)):
        if "panic" in r:
            fails.append(dict(kind="panic", t=t, ps=0, msgs=[r["panic"]]))
            continue
        for ps in (4, 8):
            n = r["l%d" % ps]
            bad = oracle(t, n)
            if bad:
                fails.append(dict(kind="oracle", t=t, ps=ps, msgs=["%s: %s" % b for b in bad], node=n))
        e = enc_str(tenc(t, r["l8"], prims))
        if e is None:
            run.count("not_encodable")
            continue
        cases.append((t, r, e))
    for sh in range(0, len(cases), 2000):
        part = cases[sh:sh + 2000]
        sums = coq_sums("c18_%s_%d" % (label, sh), [c[2] for c in part])
        for (t, r, e), (s4, s8) in zip(part, sums):
            for ps, sm in ((4, s4), (8, s8)):
                n = r["l%d" % ps]
                if chk(flatten(t, n)) != sm:
                    fails.append(dict(kind="model", t=t, ps=ps, msgs=["model and implementation differ" +
                                      (" (case did not decode)" if sm == -1 else "")], node=n))
    return fails

def children(t):
    k = t[0]
    if k == "s": return list(t[1])
    if k == "a": return [t[2]]
    if k == "o": return [t[1]]
    if k == "r": return [t[1], t[2]]
    if k == "u": return list(t[1])
    if k == "named": return [t[1]]
    return []

def shrink_candidates(t):
    """smaller type expressions derived from t"""
    out = list(children(t))
    k = t[0]
    if k == "s":
        for i in range(len(t[1])):
            out.append(("s", t[1][:i] + t[1][i + 1:]))
        for i, x in enumerate(t[1]):
            for y in shrink_candidates(x):
                out.append(("s", t[1][:i] + [y] + t[1][i + 1:]))
    elif k == "a":
        if t[1] > 1: out.append(("a", 1, t[2]))
        out += [("a", t[1], y) for y in shrink_candidates(t[2])]
    elif k == "o":
        out += [("o", y) for y in shrink_candidates(t[1])]
    elif k == "r":
        out += [("r", y, t[2]) for y in shrink_candidates(t[1])] + [("r", t[1], y) for y in shrink_candidates(t[2])]
    elif k == "u":
        for i in range(len(t[1])):
            if len(t[1]) > 1: out.append(("u", t[1][:i] + t[1][i + 1:]))
    elif k == "named":
        out.append(t[1])
    return out

def size(t):
    return 1 + sum(size(c) for c in children(t))

def shrink(run, hook, prims, f, budget=40):
    """greedy shrinking of a failing type, keeping the same failure kind"""
    t = f["t"]
    while budget > 0:
        cands = sorted(set_list(shrink_candidates(t)), key=size)[:60]
        if not cands: break
        budget -= 1
        fs = check_types(run, hook, cands, prims, "shrink")
        fs = [x for x in fs if x["kind"] == f["kind"]]
        if not fs: break
        best = min(fs, key=lambda x: size(x["t"]))
        if size(best["t"]) >= size(t): break
        t = best["t"]; f = best
    return f

def set_list(xs):
    seen = set(); out = []
    for x in xs:
        s = tstr(x)
        if s not in seen:
            seen.add(s); out.append(x)
    return out

UNION_KEY = "union-size-model"

def report_layout_failure(run, f):
    t = f["t"]
    if f["kind"] == "oracle" and any("union of size" in m for m in f["msgs"]):
        key = UNION_KEY
    else:
        key = "layout:%s:ps%d:%s" % (f["kind"], f["ps"], tstr(t))
    what = {"oracle": "layout of %s (pointer size %d) breaks the property: %s",
            "model": "layout of %s (pointer size %d) differs from the proved model: %s",
            "panic": "DataLayout panics on %s (%d): %s"}[f["kind"]] % (tstr(t), f["ps"], "; ".join(f["msgs"][:3]))
    rep = {"kind": f["kind"], "type": tstr(t), "type_json": tjson(t), "pointer_size": f["ps"], "problems": f["msgs"],
           "implementation": f.get("node"), "how": "echo '{\"id\":0,\"t\":<type_json>}' | hook layout (hooks/layout/main.go); "
           "./check C18 --replay <this file>"}
    run.violation(key, what, rep, no_input=(f["kind"] == "model" and False))

def layout_stage(run, hook, prims):
    rng = run.rng
    quick = run.tier == "quick"
    ts = systematic_types()
    nsys = len(ts)
    nrand = 500 if quick else 30000
    maxd = 4 if quick else 5
    for i in range(nrand):
        d = rng.choice([1, 2, 2, 3, 3, maxd, maxd])
        ts.append(gen_type(rng, d, exotic=True, top=(rng.random() < 0.5)))
    ts = set_list(ts)
    for t in ts:
        ks = kinds(t, set())
        run.case(tstr(t), nontrivial=(size(t) > 1), sample=None)
        run.count("depth_%d" % depth(t))
        for k in ks:
            if not k.startswith("p:"): run.count("kind_" + k)
    run.extra["layout_types"] = len(ts)
    run.extra["layout_systematic"] = nsys
    run.samples += [{"type": tstr(ts[nsys + 1]) if len(ts) > nsys + 1 else tstr(ts[0])}, {"type": tstr(ts[-1])}]
    fails = []
    for sh in range(0, len(ts), 4000):
        fails += check_types(run, hook, ts[sh:sh + 4000], prims, "l%d" % sh)
    # the open finding about the union size model is reproduced by a dedicated probe (generator gate: no unions above)
    return fails


# ------------------------------------------------------------------ tie 2: programs

RANGES = {"i8": (-2**7, 2**7 - 1), "i16": (-2**15, 2**15 - 1), "i32": (-2**31, 2**31 - 1), "i64": (-2**63 + 1, 2**63 - 1),
          "u8": (0, 2**8 - 1), "u16": (0, 2**16 - 1), "u32": (0, 2**32 - 1), "u64": (0, 2**64 - 1),
          "i128": (-2**127 + 1, 2**127 - 1), "u128": (0, 2**128 - 1), "i256": (-2**255 + 1, 2**255 - 1), "u256": (0, 2**256 - 1)}
PROG_PRIMS = ["i8", "i16", "i32", "i64", "u8", "u16", "u32", "u64", "i128", "u128", "i256", "u256", "bool", "str"]
NONE_MARK = 101          # printed for an optional that is none (never generated as a value)

def gen_ptype(rng, d, wasm_ok):
    """type of a program scenario: struct of prims / nested structs / fixed arrays / optionals of integers"""
    small = [x for x in PROG_PRIMS if not x.endswith("128") and not x.endswith("256")]
    ints = [x for x in RANGES if not wasm_ok or (not x.endswith("128") and not x.endswith("256"))]   # the JS runtime has no 128/256-bit support
    def prim():
        return ("p", rng.choice((small if wasm_ok else PROG_PRIMS) if rng.random() < 0.9 else ["i8", "i64", "i16"]))
    def field(dd):
        r = rng.random()
        if dd > 0 and r < 0.25: return struct(dd - 1)
        if dd > 0 and r < 0.40: return ("a", rng.choice([1, 2, 3]), struct(dd - 1))
        if r < 0.50: return ("a", rng.choice([1, 2, 3]), ("p", rng.choice(ints)))
        if r < 0.70 and not wasm_ok: return ("o", ("p", rng.choice(ints)))
        return prim()
    def struct(dd):
        return ("s", [field(dd) for _ in range(rng.choice([1, 2, 3, 3, 4, 5]))])
    return struct(d)

def fresh_value(rng, name, used):
    if name == "bool": return rng.choice(["true", "false"])
    if name == "str":
        used[0] += 1
        return '"s%d"' % used[0]
    lo, hi = RANGES[name]
    while True:
        r = rng.random()
        if r < 0.25: v = rng.choice([lo, hi, -1 if lo < 0 else hi, hi - 1, lo + 1])
        elif r < 0.5: v = rng.randrange(lo, hi + 1)
        else:
            used[0] += 1
            v = (used[0] * 37 + 3) % (hi + 1)
        if v != NONE_MARK: return str(v)

def shown(name, lit):
    return lit[1:-1] if name == "str" else lit

class Scenario:
    """two composite variables v, w of one type between sentinels: a random sequence of single-component writes and
    reads, whole-composite assignments between the EXISTING variables (`v = w;`), assignments from functions taking
    and returning the composite by value (`v = id(w)`, `v = step(v)`, `v = mk()`), the same inside loops
    (`while v.F0 < k { v = inc(v); }`), every component of both variables dumped after each step; then a copy into
    a new variable that is mutated. Expectations come from the abstract record semantics (value copies)."""
    def __init__(self, rng, k, t, nops, feat=None):
        feat = feat or {}
        self.k = k; self.t = t; self.names = {}; self.decls = []
        self.used = [0]
        self.is_arr = (t[0] == "a")
        self.tname = self.tyname(t)
        self.leaves = []             # (path, kind, primname), path starts with "v"
        self.collect("v", t)
        self.init = {}
        self.lits = {}
        for var in ("v", "w", "m"):
            self.init_cur = {}
            self.lits[var] = self.literal(rng, t, "v", top=True)
            self.init[var] = self.init_cur
        # gate (finding F-ARRAYSET-NESTED, lifted when its probe passes): elements of a primitive array are read-only
        self.wleaves = [l for l in self.leaves if feat.get("arrayset") or not l[0].endswith("]")]
        self.funcs = bool(feat.get("byval")) and not self.is_arr       # by-value parameters / returns
        first = self.leaves[0] if self.leaves else None
        self.inc_ok = self.funcs and first is not None and first[0] == "v.F0" and first[1] == "p" and first[2] in ("i32", "i64")
        self.step_leaf = rng.choice(self.wleaves) if self.wleaves else None
        self.step_val = fresh_value(rng, self.step_leaf[2], self.used) if self.step_leaf else None
        self.ops = []
        # top-level components of identical type can be exchanged by a literal that reads the variable it is assigned to:
        # v = { .F0 = v.F1, .F1 = v.F0, .F2 = v.F2 } / v = [v[1], v[2], v[0]]  (seeds C18e / C01e: literal built in place)
        comps = [t[2]] * t[1] if t[0] == "a" else list(t[1])
        groups = {}
        for i_, c_ in enumerate(comps): groups.setdefault(tstr(c_), []).append(i_)
        self.perm_groups = [g_ for g_ in groups.values() if len(g_) >= 2]
        self.ncomps = len(comps)
        kinds = ["set"] * 4 + ["read"] * 2 + ["assign"] * 4 + ["loop"] * 1 + (["perm"] * 3 if self.perm_groups else [])
        if self.funcs: kinds += ["id"] * 2 + ["step"] * 2 + ["mk"] + (["incloop"] * 3 if self.inc_ok else [])
        for _ in range(nops):
            kd = rng.choice(kinds)
            dst = rng.choice(["v", "w"]); src = "w" if dst == "v" else "v"
            if kd in ("set", "read") and not (self.wleaves if kd == "set" else self.leaves): continue
            if kd == "set":
                path, kind, pn = self.wleaves[0] if rng.random() < 0.35 else rng.choice(self.wleaves)
                val = "none" if (kind == "o" and rng.random() < 0.3) else fresh_value(rng, pn, self.used)
                self.ops.append(("set", dst, (path, kind, pn), val))
            elif kd == "read":
                self.ops.append(("read", dst, self.leaves[0] if rng.random() < 0.6 else rng.choice(self.leaves)))
            elif kd == "perm":
                pm = list(range(self.ncomps))
                for g_ in self.perm_groups:
                    if rng.random() < 0.7:
                        sh = g_[1:] + g_[:1] if rng.random() < 0.7 else list(reversed(g_))
                        for a_, b_ in zip(g_, sh): pm[a_] = b_
                if pm == list(range(self.ncomps)):
                    g_ = self.perm_groups[0]; pm[g_[0]], pm[g_[1]] = g_[1], g_[0]
                self.ops.append(("perm", dst, tuple(pm)))
            elif kd in ("assign", "id"):
                self.ops.append((kd, dst, src))
            elif kd == "step":
                self.ops.append(("step", dst, rng.choice([dst, src])))
            elif kd == "mk":
                self.ops.append(("mk", dst))
            elif kd == "loop":
                body = rng.choice(["assign", "step"] if self.funcs and self.step_leaf else ["assign"])
                lf = rng.choice(self.wleaves) if self.wleaves else None
                self.ops.append(("loop", dst, src, rng.choice([1, 2, 3]), body, lf, fresh_value(rng, lf[2], self.used) if lf else None))
            elif kd == "incloop":
                self.ops.append(("incloop", dst, rng.choice([1, 2, 3])))
        self.copy_writes = [(path, kind, pn, fresh_value(rng, pn, self.used)) for path, kind, pn in self.wleaves]
        self.g1 = str(rng.randrange(10**6, 10**9)); self.g2 = str(-rng.randrange(10**6, 10**9)); self.g3 = str(rng.randrange(10**9, 10**12))
    def declare(self, t):
        key = tstr(t)
        if key in self.names: return self.names[key]
        fields = []
        for i, f in enumerate(t[1]):
            fields.append("    .F%d: %s" % (i, self.tyname(f)))
        name = "S%d_%d" % (self.k, len(self.names))
        self.names[key] = name
        self.decls.append("type %s struct {\n%s\n};" % (name, ",\n".join(fields)))
        return name
    def tyname(self, t):
        if t[0] == "p": return t[1]
        if t[0] == "s": return self.declare(t)
        if t[0] == "a": return "[%d]%s" % (t[1], self.tyname(t[2]))
        if t[0] == "o": return self.tyname(t[1]) + "?"
        raise ValueError(t)
    def collect(self, path, t):
        if t[0] == "p": self.leaves.append((path, "p", t[1]))
        elif t[0] == "o": self.leaves.append((path, "o", t[1][1]))
        elif t[0] == "s":
            for i, f in enumerate(t[1]): self.collect("%s.F%d" % (path, i), f)
        elif t[0] == "a":
            for i in range(t[1]): self.collect("%s[%d]" % (path, i), t[2])
    def literal(self, rng, t, path, top=False):
        if t[0] == "p":
            v = fresh_value(rng, t[1], self.used); self.init_cur[path] = shown(t[1], v); return v
        if t[0] == "o":
            if rng.random() < 0.5:
                self.init_cur[path] = str(NONE_MARK); return "none"
            v = fresh_value(rng, t[1][1], self.used); self.init_cur[path] = v; return v
        if t[0] == "s":
            body = "{ " + ", ".join(".F%d = %s" % (i, self.literal(rng, f, "%s.F%d" % (path, i))) for i, f in enumerate(t[1])) + " }"
            return body if top else body + " as " + self.declare(t)
        if t[0] == "a":
            return "[" + ", ".join(self.literal(rng, t[2], "%s[%d]" % (path, i)) for i in range(t[1])) + "]"
        raise ValueError(t)
    @staticmethod
    def at(var, path):
        return var + path[1:]
    def read_code(self, var, leaf, ind="    "):
        path, kind, pn = leaf
        pth = self.at(var, path)
        if kind == "p": return ["%sio::Println(%s);" % (ind, pth)]
        n = self.tick()
        return ["%slet d%s%d: %s = %d;" % (ind, var, n, pn, NONE_MARK),
                "%slet t%s%d: %s = %s ?? d%s%d;" % (ind, var, n, pn, pth, var, n),
                "%sio::Println(t%s%d);" % (ind, var, n)]
    def dump_code(self, var, ind="    ", sent="g1, g2, g3"):
        out = []
        for leaf in self.leaves:
            out += self.read_code(var, leaf, ind)
        out.append("%sio::Println(%s);" % (ind, sent))
        return out
    _tick = 0
    def tick(self):
        self._tick += 1; return self._tick
    def code(self, byval, ops=None):
        k = self.k
        self._tick = 0
        ops = self.ops if ops is None else ops
        sent = "%s %s %s" % (self.g1, self.g2, self.g3)
        L = ["fn t%d() {" % k, "    let g1: i64 = %s;" % self.g1, "    let v: %s = %s;" % (self.tname, self.lits["v"]),
             "    let g2: i64 = %s;" % self.g2, "    let w: %s = %s;" % (self.tname, self.lits["w"]),
             "    let g3: i64 = %s;" % self.g3, '    io::Println("#%d");' % k]
        exp = ["#%d" % k]
        st = {"v": dict(self.init["v"]), "w": dict(self.init["w"])}
        def dump_exp(s1):
            return [s1[p] for p, _, _ in self.leaves] + [sent]
        def dump(var, s1):
            # every component + the sentinels; the composite is passed by value to d<k> when that works (smaller programs:
            # the front end needs ~10 ms per source line), otherwise the reads are inline
            if byval: L.append("    d%d(%s, g1, g2, g3);" % (k, var))
            else: L.extend(self.dump_code(var))
            exp.extend(dump_exp(s1))
        def both():
            dump("v", st["v"]); dump("w", st["w"])
        if self.leaves:
            # the first component of both variables is accessed inside this function before any whole-composite assignment
            for var in ("v", "w"):
                L.extend(self.read_code(var, self.leaves[0])); exp.append(st[var][self.leaves[0][0]])
        def setv(s1, leaf, val):
            s1[leaf[0]] = str(NONE_MARK) if val == "none" else shown(leaf[2], val)
        both()
        nloop = 0
        for op in ops:
            kd = op[0]
            if kd == "set":
                _, dst, leaf, val = op
                L.append("    %s = %s;" % (self.at(dst, leaf[0]), val)); setv(st[dst], leaf, val)
            elif kd == "read":
                _, dst, leaf = op
                L.extend(self.read_code(dst, leaf)); exp.append(st[dst][leaf[0]])
                continue
            elif kd == "assign":
                _, dst, src = op
                L.append("    %s = %s;" % (dst, src)); st[dst] = dict(st[src])
            elif kd == "perm":
                _, dst, pm = op
                comp = (lambda i: "[%d]" % i) if self.is_arr else (lambda i: ".F%d" % i)
                if self.is_arr: L.append("    %s = [%s];" % (dst, ", ".join(dst + comp(j) for j in pm)))
                else: L.append("    %s = { %s };" % (dst, ", ".join(".F%d = %s%s" % (i, dst, comp(j)) for i, j in enumerate(pm))))
                old_, new_ = st[dst], {}
                for path in old_:
                    for i, j in enumerate(pm):
                        pre = "v" + comp(i)
                        if path == pre or path.startswith(pre + ".") or path.startswith(pre + "["):
                            new_[path] = old_["v" + comp(j) + path[len(pre):]]
                            break
                    else:
                        new_[path] = old_[path]
                st[dst] = new_
            elif kd == "id":
                _, dst, src = op
                L.append("    %s = id%d(%s);" % (dst, k, src)); st[dst] = dict(st[src])
            elif kd == "step":
                _, dst, src = op
                L.append("    %s = step%d(%s);" % (dst, k, src)); st[dst] = dict(st[src]); setv(st[dst], self.step_leaf, self.step_val)
            elif kd == "mk":
                _, dst = op
                L.append("    %s = mk%d();" % (dst, k)); st[dst] = dict(self.init["m"])
            elif kd == "loop":
                _, dst, src, n, body, lf, lv = op
                nloop += 1
                L += ["    let n%d: i32 = 0;" % nloop, "    while n%d < %d {" % (nloop, n)]
                if body == "assign": L.append("        %s = %s;" % (dst, src))
                else: L.append("        %s = step%d(%s);" % (dst, k, src))
                if lf: L.append("        %s = %s;" % (self.at(dst, lf[0]), lv))
                L += ["        n%d = n%d + 1;" % (nloop, nloop), "    }"]
                st[dst] = dict(st[src])
                if body == "step": setv(st[dst], self.step_leaf, self.step_val)
                if lf: setv(st[dst], lf, lv)
            elif kd == "incloop":
                _, dst, n = op
                cur = int(st[dst]["v.F0"]); hi = RANGES[self.leaves[0][2]][1]
                if cur > hi - 10: continue
                nloop += 1       # the step bound keeps a corrupted counter from spinning forever
                L += ["    let n%d: i32 = 0;" % nloop, "    while %s.F0 < %d && n%d < 8 {" % (dst, cur + n, nloop),
                      "        %s = inc%d(%s);" % (dst, k, dst), "        n%d = n%d + 1;" % (nloop, nloop), "    }"]
                st[dst]["v.F0"] = str(cur + n)
            both()
        L.append("    let c := v;")
        cstate = dict(st["v"])
        for path, kind, pn, val in self.copy_writes:
            L.append("    %s = %s;" % (self.at("c", path), val))
            cstate[path] = shown(pn, val)
        dump("v", st["v"]); dump("w", st["w"]); dump("c", cstate)
        pre = []
        if self.funcs:
            pre += ["fn id%d(x: %s) -> %s {" % (k, self.tname, self.tname), "    return x;", "}"]
            if self.step_leaf:
                pre += ["fn step%d(x: %s) -> %s {" % (k, self.tname, self.tname),
                        "    %s = %s;" % (self.at("x", self.step_leaf[0]), self.step_val), "    return x;", "}"]
            pre += ["fn mk%d() -> %s {" % (k, self.tname), "    return %s as %s;" % (self.lits["m"], self.tname), "}"]
            if self.inc_ok:
                pre += ["fn inc%d(x: %s) -> %s {" % (k, self.tname, self.tname), "    x.F0 = x.F0 + 1;", "    return x;", "}"]
        if byval:
            pre += ["fn d%d(v: %s, g1: i64, g2: i64, g3: i64) {" % (k, self.tname)] + self.dump_code("v") + ["}"]
        L.append("}")
        return self.decls, pre + L, exp
    def op_text(self, op):
        kd = op[0]
        if kd == "set": return "%s = %s" % (self.at(op[1], op[2][0]), op[3])
        if kd == "read": return "read " + self.at(op[1], op[2][0])
        if kd == "assign": return "%s = %s" % (op[1], op[2])
        if kd == "perm": return "%s = literal reading %s with components %s" % (op[1], op[1], list(op[2]))
        if kd == "id": return "%s = id(%s)" % (op[1], op[2])
        if kd == "step": return "%s = step(%s)" % (op[1], op[2])
        if kd == "mk": return "%s = mk()" % op[1]
        if kd == "loop": return "loop x%d { %s = %s(%s); %s }" % (op[3], op[1], "" if op[4] == "assign" else "step", op[2],
                                                                   ("%s = %s" % (self.at(op[1], op[5][0]), op[6])) if op[5] else "")
        if kd == "incloop": return "while %s.F0 < +%d { %s = inc(%s) }" % (op[1], op[2], op[1], op[1])
        return repr(op)
    def describe(self, ops=None):
        return {"type": tstr(self.t), "ops": [self.op_text(o) for o in (self.ops if ops is None else ops)]}

class ResScenario:
    """a function returning E ! T, called on both paths, with sentinels around the results"""
    def __init__(self, rng, k):
        self.k = k
        self.e = rng.choice(list(RANGES) + ["str"]); self.t = rng.choice(list(RANGES) + ["bool"])
        u = [0]
        self.ev = fresh_value(rng, self.e, u); self.tv = fresh_value(rng, self.t, u)
        self.dv = "true" if self.t == "bool" and self.tv == "false" else ("false" if self.t == "bool" else str(NONE_MARK))
        self.g1 = str(rng.randrange(10**6, 10**9)); self.g2 = str(-rng.randrange(10**6, 10**9))
        self.t0 = ("r", ("p", self.t), ("p", self.e))
    def code(self, byval):
        k = self.k
        L = ["fn r%d(k: i32) -> %s ! %s {" % (k, self.e, self.t), "    if k == 0 {", "        let e: %s = %s;" % (self.e, self.ev),
             "        return e!;", "    }", "    let x: %s = %s;" % (self.t, self.tv), "    return x;", "}",
             "fn t%d() {" % k, '    io::Println("#%d");' % k, "    let g1: i64 = %s;" % self.g1,
             "    let dv: %s = %s;" % (self.t, self.dv),
             '    let a: %s = r%d(1) catch e { io::Println("E", e); } dv;' % (self.t, k),
             "    let g2: i64 = %s;" % self.g2,
             '    let b: %s = r%d(0) catch e { io::Println("E", e); } dv;' % (self.t, k),
             "    io::Println(a);", "    io::Println(b);", "    io::Println(g1, g2);", "}"]
        exp = ["#%d" % k, "E " + shown(self.e, self.ev), shown(self.t, self.tv), self.dv, "%s %s" % (self.g1, self.g2)]
        return [], L, exp
    def describe(self):
        return {"type": tstr(self.t0), "ok": self.tv, "err": self.ev}

def render(scens, byval):
    decls, body, exps = [], [], []
    for sc in scens:
        d, l, e = sc.code(byval)
        decls += d; body += l; exps.append(e)
    main = ["fn main() {"] + ["    t%d();" % sc.k for sc in scens] + ["}"]
    return 'import "std/io";\n\n' + "\n".join(decls) + "\n\n" + "\n".join(body) + "\n\n" + "\n".join(main) + "\n", exps

def split_out(out):
    """stdout -> {scenario id: [lines]}"""
    cur = None; res = {}
    for line in out.splitlines():
        if line.startswith("#") and line[1:].isdigit():
            cur = int(line[1:]); res[cur] = [line]
        elif cur is not None:
            res[cur].append(line)
    return res

BYVAL_PROBE = """import "std/io";
type S struct {
    .F0: i8,
    .F1: i64,
    .F2: i16
};
fn d(v: S) {
    io::Println(v.F0, v.F1, v.F2);
}
fn main() {
    let v: S = { .F0 = 2, .F1 = 3, .F2 = 4 };
    d(v);
}
"""
BYVAL_KEY = "byval-struct-param"
ARRAYSET_PROBE = """import "std/io";
type A struct {
    .F0: i8,
    .F1: [3]i16
};
fn main() {
    let v: A = { .F0 = 1, .F1 = [10, 11, 12] };
    v.F1[1] = 299;
    io::Println(v.F1[0], v.F1[1], v.F1[2]);
}
"""
ARRAYSET_KEY = "arrayset-nested-temp"

def run_prog(work, name, src, target):
    r = common.compile_and_run(src, work, name, target=target, timeout=25)
    if not r["accepted"] or "out" not in r:
        return None, (r.get("cout", "") + r.get("cerr", ""))[-1500:]
    return r, None

def first_diff(exp, got):
    for i, e in enumerate(exp):
        if i >= len(got) or got[i] != e:
            return i, e, (got[i] if i < len(got) else "<missing>")
    if len(got) > len(exp): return len(exp), "<end>", got[len(exp)]
    return None

def programs_stage(run, work):
    rng = run.rng
    quick = run.tier == "quick"
    # ---- gate: by-value struct parameters (finding / fix C18-byval-param-copy)
    r, err = run_prog(work, "byval", BYVAL_PROBE, "native")
    byval = bool(r and r.get("rc") == 0 and r["out"].strip() == "2 3 4")
    run.extra["byval_param_copy_ok"] = byval
    if not byval:
        run.violation(BYVAL_KEY, "a struct passed by value is not copied into the callee: expected `2 3 4`, got `%s`" %
                      ((r["out"].strip() if r else err) or "")[:80],
                      {"program": BYVAL_PROBE, "expected": "2 3 4", "observed": r["out"] if r else err, "target": "native"})
        run.extra.setdefault("gates", []).append("by-value struct parameters are kept out of the generated programs while "
                                                  "the by-value copy defect is open (probe BYVAL_PROBE)")
    # ---- known finding: element store into a primitive array nested in a struct (probe)
    r2, err2 = run_prog(work, "arrayset", ARRAYSET_PROBE, "native")
    if not (r2 and r2.get("rc") == 0 and r2["out"].strip() == "10 299 12"):
        run.violation(ARRAYSET_KEY, "storing into an element of a fixed array that is a struct field does not read back: "
                      "expected `10 299 12`, got `%s`" % ((r2["out"].strip() if r2 else err2) or "")[:80],
                      {"program": ARRAYSET_PROBE, "expected": "10 299 12", "observed": r2["out"] if r2 else err2, "target": "native"})
        run.extra.setdefault("gates", []).append("elements of primitive arrays nested in structs are read but never written by the "
                                                  "generated programs while F-ARRAYSET-NESTED is open (probe ARRAYSET_PROBE)")
    arrayset = bool(r2 and r2.get("rc") == 0 and r2["out"].strip() == "10 299 12")
    feat = {"byval": byval, "arrayset": arrayset}
    nprog = 2 if quick else 40
    per = 6 if quick else 10
    fails = []
    for pi in range(nprog):
        wasm = (pi % 2 == 1)
        scens = []
        for k in range(per):
            if not wasm and k % 6 == 5:
                scens.append(ResScenario(rng, k)); continue
            t = gen_ptype(rng, rng.choice([0, 1, 1, 2] if quick else [0, 1, 1, 2, 2, 3]), wasm)
            r = rng.random()
            if r < 0.35: t = ("s", [("p", rng.choice(["i32", "i64"]))] + t[1][1:])       # scalar first field usable as a loop counter
            elif r < 0.45: t = ("s", [("p", "str")] + t[1][1:])
            elif r < 0.55 and not wasm: t = ("s", [("o", ("p", rng.choice(["i8", "i32", "i64", "u16"])))] + t[1][1:])
            if rng.random() < 0.2: t = ("a", rng.choice([1, 2, 3]), t)                    # the variable is a fixed array of structs
            scens.append(Scenario(rng, k, t, rng.choice([4, 6, 9]), feat))
        fails += run_scenarios(run, work, "p%d" % pi, scens, "wasm" if wasm else "native", byval, depth=0)
    for f in fails[:3]:
        shrink_ops(work, f, byval)
    return fails

def shrink_ops(work, f, byval):
    """drop operations of a failing scenario one by one while it still fails (greedy, bounded)"""
    sc = f["sc"]
    if not isinstance(sc, Scenario): return
    ops = list(sc.ops)
    def failing(cand):
        save = sc.ops; sc.ops = cand
        try:
            src, exps = render([sc], byval)
        finally:
            sc.ops = save
        r, err = run_prog(work, "shr", src, f["target"])
        if r is None: return None
        got = split_out(r["out"]).get(sc.k, [])
        df = first_diff(exps[0], got)
        if r.get("rc") != 0 and df is None: df = (0, "exit 0", "exit %s" % r.get("rc"))
        return (src, exps[0], df) if df is not None else None
    budget = 12
    i = len(ops) - 1
    best = None
    while i >= 0 and budget > 0:
        cand = ops[:i] + ops[i + 1:]
        budget -= 1
        res = failing(cand)
        if res is not None:
            ops = cand; best = res
        i -= 1
    if best is not None:
        sc.ops = ops
        f["src"], f["expected"] = best[0], best[1]
        f["detail"] = "line %d: expected `%s`, got `%s`" % best[2]

def run_scenarios(run, work, name, scens, target, byval, depth):
    """compile + run the scenarios in one program; on a compile failure or a crash bisect to single scenarios"""
    src, exps = render(scens, byval)
    r, err = run_prog(work, name, src, target)
    fails = []
    if r is None or r.get("rc") != 0:
        if len(scens) > 1:
            h = len(scens) // 2
            return run_scenarios(run, work, name + "a", scens[:h], target, byval, depth + 1) + \
                   run_scenarios(run, work, name + "b", scens[h:], target, byval, depth + 1)
        sc = scens[0]
        if r is None:
            run.count("programs_rejected_" + target)
            run.extra.setdefault("rejected_samples", [])
            if len(run.extra["rejected_samples"]) < 3: run.extra["rejected_samples"].append({"type": tstr(sc.t if hasattr(sc, "t") and isinstance(sc.t, tuple) else sc.t0), "error": err[-300:]})
            return []
        return [dict(kind="crash", sc=sc, target=target, src=src, detail="exit status %s, stderr %s" % (r.get("rc"), r.get("err", "")[-300:]))]
    got = split_out(r["out"])
    for sc, exp in zip(scens, exps):
        run.count("programs_run_" + target)
        d = sc.describe()
        run.case(("prog", target, json.dumps(d, sort_keys=True)), nontrivial=True,
                 sample={"target": target, "scenario": d} if sc.k == 0 else None)
        run.count("prog_components", len(getattr(sc, "leaves", [1, 2])))
        df = first_diff(exp, got.get(sc.k, []))
        if df is not None:
            one_src, one_exp = render([sc], byval)
            fails.append(dict(kind="output", sc=sc, target=target, src=one_src, detail="line %d: expected `%s`, got `%s`" % df,
                              expected=one_exp[0]))
    return fails

def report_program_failure(run, f):
    sc = f["sc"]
    d = sc.describe()
    key = "program:%s:%s" % (f["target"], hashlib.sha256(json.dumps(d, sort_keys=True).encode()).hexdigest()[:16])
    run.violation(key, "generated program (%s) on %s: a component does not keep its value: %s" % (d["type"], f["target"], f["detail"]),
                  {"program": f["src"], "target": f["target"], "scenario": d, "problem": f["detail"],
                   "expected_stdout": f.get("expected"), "how": "ferret [-target wasm] -o prog main.fer; run; compare stdout"})

UNION_PROBE = ("s", [("u", [("s", [("p", "i8"), ("p", "i64")]), ("p", "i8")]), ("p", "i64")])

def main(run):
    work = Work()
    hook = common.build_hook("layout")
    prims = gen_prims(hook)
    run.rule = ("tie 1: type expressions = systematic width sequences (all 1..3-field structs over widths 1,2,4,8,16,32, alone / "
                "followed by optional / result / nested / in arrays) + random expressions up to nesting depth 4 (quick) or 5 "
                "(thorough), each evaluated for pointer sizes 4 and 8; distinct = distinct canonical type text, non-trivial = "
                "composite (more than one node). tie 2: generated programs (see programs_*).")
    run.trusted.append("hooks/layout/main.go (builds types.SemType values from JSON, calls exported mir.DataLayout API)")
    run.assumptions = ["neighbouring variables occupy addresses outside [addr, addr + SizeOf(T)) (allocation is by SizeOf: alloca / ferret_alloc)",
                       "stores of a component write exactly SizeOf(component) bytes (checked at program level only)"]
    ok = run.proof("Props/C18.v")
    fails = layout_stage(run, hook, prims)
    # ---- union size model (open finding F-UNION-SIZE): reproduced on every run by its own probe
    uf = [f for f in check_types(run, hook, [UNION_PROBE], prims, "union") if f["kind"] == "oracle"]
    run.extra.setdefault("gates", []).append("array elements of optional type and struct-payload results are not generated at program level (the compiler rejects them)")
    run.extra["gates"] += ["union types are kept out of the random type generator while F-UNION-SIZE is open (probe: %s)" % tstr(UNION_PROBE)]
    for f in uf[:1]:
        report_layout_failure(run, f)
    pf = programs_stage(run, work)
    for f in pf[:3]:
        report_program_failure(run, f)
    tot = sum(v for k, v in run.dist.items() if k.startswith("programs_run_"))
    rej = sum(v for k, v in run.dist.items() if k.startswith("programs_rejected_"))
    if rej > tot:
        run.violation("harness:programs-rejected", "most generated programs are rejected by the compiler (%d of %d): the program "
                      "generator no longer matches the language" % (rej, rej + tot), {"samples": run.extra.get("rejected_samples")}, no_input=True)
    seen = set()
    for f in fails:
        if len(seen) >= 3: break
        f = shrink(run, hook, prims, f)
        k = (f["kind"], tstr(f["t"]), f["ps"])
        if k in seen: continue
        seen.add(k)
        report_layout_failure(run, f)
    if not ok and not fails:
        where, log = run.proof_failure
        run.violation("proof:C18:" + where, "Props/C18 no longer checks (%s)" % where,
                      {"theorem_file": "coq/Props/C18.v", "where": where, "log": log}, no_input=True)

def replay(run, path):
    r = json.load(open(path))
    print(json.dumps(r, indent=1))
    return 0
