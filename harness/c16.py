"""C16 — 128- and 256-bit integer arithmetic is exact modulo 2^N.

 proof     : coq/Props/C16.v about the port coq/Models/Bigint.v of runtime/core/bigint.c
 tie       : cshim/bigint_drv.c links the working tree's bigint.c (ASan+UBSan); one process executes all generated
             operations; (a) every in-domain result is compared with the mathematical result computed with
             Python integers (spec-side oracle: a difference IS a violation of the property, with its input),
             (b) a sample is evaluated by the Gallina port inside Coq (vm_compute) and compared with what the
             implementation printed (model <-> code correspondence, incl. the totalised out-of-domain branches).
 lowering  : four generated Ferret programs (one per type) run every operator/cast the builder lowers to a
             ferret_<type>_*_ptr helper; printed results are compared with the same oracle.
"""
import os, json, subprocess, time
import common
from common import Work

TYPES = ["i128", "u128", "i256", "u256"]
BINOPS = ["add", "sub", "mul", "div", "mod", "and", "or", "xor", "pow"]
CMPOPS = ["eq", "lt", "gt"]
OPCTOR = {"add": "OAdd", "sub": "OSub", "mul": "OMul", "div": "ODiv", "mod": "OMod", "and": "OAnd", "or": "OOr",
          "xor": "OXor", "pow": "OPow", "eq": "OEq", "lt": "OLt", "gt": "OGt", "not": "ONot", "shl": "OShl",
          "shr": "OShr", "from64": "OFrom64", "to64": "OTo64", "tostr": "OToStr", "fromstr": "OFromStr"}
B = 1 << 64
LIMB_POOL = [0, 1, 2, 2 ** 63 - 1, 2 ** 63, 2 ** 64 - 2, 2 ** 64 - 1, 2 ** 32 - 1, 2 ** 32, 2 ** 63 + 1]

def bits(ty): return int(ty[1:])
def signed(ty): return ty[0] == "i"
def nlimbs(ty): return bits(ty) // 64

def sval(ty, x):
    """mathematical value of the bit pattern x"""
    M = 1 << bits(ty)
    return x - M if signed(ty) and x >= M // 2 else x

def tdiv(a, b):
    q = abs(a) // abs(b)
    return q if (a < 0) == (b < 0) else -q

# ------------------------------------------------------------------ spec-side oracle (Python integers)

def parse_text_spec(ty, s):
    """value denoted by a well-formed numeric text, or None when the text is outside the statement
    (malformed, or a minus sign for an unsigned type)."""
    i = 0
    while i < len(s) and s[i] in b" \t\n\v\f\r": i += 1
    neg = False
    if i < len(s) and s[i] in b"+-":
        neg = s[i] == ord("-"); i += 1
    if neg and not signed(ty): return None
    base = 10
    if s[i:i + 2].lower() in (b"0x", b"0o", b"0b") and len(s) > i + 1:
        base = {b"0x": 16, b"0o": 8, b"0b": 2}[s[i:i + 2].lower()]; i += 2
    v = 0; any_ = False
    for c in s[i:]:
        if c == ord("_"): continue
        ch = chr(c)
        if ch not in "0123456789abcdefABCDEF": return None
        d = int(ch, 16)
        if d >= base: return None
        v = v * base + d; any_ = True
    if not any_: return None
    return -v if neg else v

def spec(ty, op, a, b):
    """expected shim output for an in-domain case; None = outside the statement of C16 (division by zero,
    negative exponent / shift count, malformed text)."""
    N = bits(ty); M = 1 << N
    hexw = "%0" + str(N // 4) + "x"
    enc = lambda v: hexw % (v % M)
    if op == "fromstr":
        v = parse_text_spec(ty, a)
        return None if v is None else enc(v)
    if op == "from64":
        return enc(a - B if signed(ty) and a >= B // 2 else a)
    A = sval(ty, a)
    if op == "to64": return "%016x" % (A % B)
    if op == "tostr": return "S:%d" % A
    if op == "not": return enc(~A)
    if op in ("shl", "shr"):
        if b < 0: return None
        if op == "shl": return enc(A << b) if b < N else enc(0)
        return enc(A >> min(b, N))
    Bv = sval(ty, b)
    if op == "add": return enc(A + Bv)
    if op == "sub": return enc(A - Bv)
    if op == "mul": return enc(A * Bv)
    if op == "div": return None if Bv == 0 else enc(tdiv(A, Bv))
    if op == "mod": return None if Bv == 0 else enc(A - Bv * tdiv(A, Bv))
    if op == "and": return enc(a & b)
    if op == "or": return enc(a | b)
    if op == "xor": return enc(a ^ b)
    if op == "pow": return None if Bv < 0 else enc(pow(A, Bv, M))
    if op == "eq": return "1" if A == Bv else "0"
    if op == "lt": return "1" if A < Bv else "0"
    if op == "gt": return "1" if A > Bv else "0"
    raise ValueError(op)

# ------------------------------------------------------------------ generators

def gen_limb(r):
    p = r.random()
    if p < 0.62: return r.choice(LIMB_POOL)
    if p < 0.80: return r.getrandbits(64)
    if p < 0.90: return r.getrandbits(r.randrange(1, 64))
    return B - 1 - r.getrandbits(r.randrange(1, 20))

def gen_val(r, ty):
    n = nlimbs(ty); N = bits(ty); M = 1 << N
    p = r.random()
    if p < 0.50:
        return sum(gen_limb(r) << (64 * i) for i in range(n))
    if p < 0.62:
        k = r.choice([0, 1, 63, 64, 65, 127, 128, 129, 191, 192, 193, 255]) if r.random() < 0.7 else r.randrange(N)
        k %= N
        return (r.choice([1 << k, (1 << k) - 1, (1 << k) + 1, -(1 << k), -(1 << k) - 1, -(1 << k) + 1])) % M
    if p < 0.72:
        return r.randrange(-20, 21) % M
    if p < 0.82:
        return (M // 2 + r.randrange(-3, 4)) % M
    if p < 0.90:
        k = r.randrange(1, n + 1)            # only the low k limbs populated
        return sum(gen_limb(r) << (64 * i) for i in range(k))
    return r.getrandbits(N)

def gen_pair(r, ty, op):
    N = bits(ty); M = 1 << N
    a = gen_val(r, ty)
    p = r.random()
    if p < 0.14:
        b = r.choice([a, (a + 1) % M, (a - 1) % M, (-a) % M, (M - 1 - a), (a + B) % M, (a - B) % M, a ^ (M >> 1)])
    else:
        b = gen_val(r, ty)
    if op in ("div", "mod"):
        q = r.random()
        if q < 0.20 and sval(ty, b) != 0:
            # a = q0*b + r0 with r0 at the edges of [0, |b|): exercises the last subtraction of the division loop
            bb = abs(sval(ty, b)); q0 = gen_val(r, ty) % max(1, ((M // 2 - 1) // bb))
            r0 = r.choice([0, 1, bb - 1, bb // 2]) % bb
            av = q0 * bb + r0
            if av < M // 2:
                a = (av if r.random() < 0.5 or not signed(ty) else -av) % M
        elif q < 0.30:
            b = r.choice([1, 2, 3, 10, M - 1, M - 2, B - 1, B, B + 1, M // 2, M // 2 + 1, M // 2 - 1]) % M
        elif q < 0.33:
            b = 0
    if op == "pow":
        q = r.random()
        if q < 0.70: b = r.randrange(0, 140)
        elif q < 0.80: b = r.randrange(0, 700)
        elif q < 0.90: b = gen_val(r, ty)
        elif signed(ty): b = (-r.randrange(1, 1 << r.randrange(1, N - 1))) % M
        else: b = r.getrandbits(N)
        if r.random() < 0.4:
            a = r.choice([0, 1, 2, 3, 10, M - 1, M - 2, M - 3, B - 1, B, B + 1, M // 2]) % M
    return a, b

SHIFTS = [-(1 << 31), -5, -1, 0, 1, 2, 31, 32, 33, 62, 63, 64, 65, 66, 126, 127, 128, 129, 130, 190, 191, 192, 193,
          254, 255, 256, 257, 300, 1000, (1 << 31) - 1]

def gen_text(r, ty):
    """(bytes, well-formed?)  mostly well-formed decimal; also other bases, separators, overflow, malformed"""
    N = bits(ty); M = 1 << N
    p = r.random()
    if p < 0.55:
        v = sval(ty, gen_val(r, ty))
        if r.random() < 0.15: v = v * r.choice([1, 10, 1000, 10 ** 40]) + r.randrange(0, 10)       # may exceed the range: wraps
        if not signed(ty): v = abs(v)
        s = "%d" % abs(v)
        if r.random() < 0.2: s = "0" * r.randrange(1, 4) + s if not s.startswith("0") and r.random() < 0.5 else s
        if r.random() < 0.2 and len(s) > 3:
            k = r.randrange(1, len(s)); s = s[:k] + "_" + s[k:]
        if s[0] == "0" and len(s) > 1 and s[1] in "xXoObB": s = "1" + s
        sign = "-" if v < 0 else ("+" if r.random() < 0.15 else "")
        lead = r.choice(["", "", "", " ", "\t ", "\n"])
        return (lead + sign + s).encode()
    if p < 0.75:
        base, pre, fmt = r.choice([(16, "0x", "%x"), (16, "0X", "%X"), (8, "0o", "%o"), (2, "0b", "{:b}"), (2, "0B", "{:b}")])
        v = gen_val(r, ty) if r.random() < 0.8 else r.getrandbits(N + 9)
        body = fmt.format(v) if "{" in fmt else fmt % v
        if r.random() < 0.2 and len(body) > 2:
            k = r.randrange(1, len(body)); body = body[:k] + "_" + body[k:]
        sign = "-" if signed(ty) and r.random() < 0.3 else ""
        return (sign + pre + body).encode()
    if p < 0.85:
        return r.choice([b"", b"-", b"+", b"0x", b"0b2", b"12a4", b"1 2", b"--1", b"+-1", b"0o8", b"_", b"_1", b"1_",
                         b"-0", b"0", b"00", b"-1", b" -17", b"9" * 90, b"0xg", b"abc", b"1e5", b"0x_f", b"0_x1"])
    n = r.randrange(0, 12)
    return bytes(r.choice(b"0123456789_-+ xXbBoOaAfFgz.\t") for _ in range(n))

def gen_cases(r, total):
    """list of (ty, op, a, b) — a/b ints, or bytes for fromstr"""
    cases = []
    weights = [("add", 8), ("sub", 10), ("mul", 9), ("div", 9), ("mod", 9), ("pow", 4), ("and", 2), ("or", 2),
               ("xor", 2), ("not", 2), ("eq", 3), ("lt", 5), ("gt", 5), ("shl", 5), ("shr", 6), ("from64", 2),
               ("to64", 2), ("tostr", 6), ("fromstr", 9)]
    ops = [o for o, w in weights for _ in range(w)]
    for i in range(total):
        ty = TYPES[i % 4]
        op = r.choice(ops)
        if op in BINOPS or op in CMPOPS:
            a, b = gen_pair(r, ty, op)
        elif op in ("shl", "shr"):
            a = gen_val(r, ty); b = r.choice(SHIFTS) if r.random() < 0.75 else r.randrange(0, bits(ty) + 3)
        elif op == "from64":
            a = gen_limb(r); b = 0
        elif op == "fromstr":
            a = gen_text(r, ty); b = 0
        else:
            a = gen_val(r, ty); b = 0
        cases.append((ty, op, a, b))
    return cases

def corpus_cases():
    """fixed regression inputs (limb-boundary borrow/carry chains, division edge, sign edges); replayed first."""
    cs = []
    p = os.path.join(common.VERIF, "corpus", "C16", "cases.txt")
    if os.path.exists(p):
        for line in open(p):
            line = line.split("#")[0].strip()
            if not line: continue
            f = line.split()
            ty, op = f[0], f[1]
            if op == "fromstr":
                a = bytes.fromhex(f[2]) if f[2] != "-" else b""; b = 0
            elif op in ("shl", "shr"):
                a = int(f[2], 16); b = int(f[3])
            else:
                a = int(f[2], 16); b = int(f[3], 16) if len(f) > 3 else 0
            cs.append((ty, op, a, b))
    return cs

# ------------------------------------------------------------------ running the implementation

def build_shim(work):
    """cshim/bigint_drv.c + the working tree's runtime/core/bigint.c, ASan+UBSan, into the scratch directory.
    (Same flags as common.build_cshim; built privately because it needs neither the compiler build nor the shared
    cache directory, which concurrent checks may prune.)"""
    out = work.path("bigint_drv")
    cmd = ["clang", "-std=gnu99", "-O1", "-g", "-w", "-I", os.path.join(common.REPO, "runtime", "core"),
           "-fsanitize=address,undefined", "-fno-sanitize-recover=undefined", "-fno-omit-frame-pointer",
           os.path.join(common.VERIF, "cshim", "bigint_drv.c"), os.path.join(common.REPO, "runtime", "core", "bigint.c"),
           "-o", out, "-lm"]
    common.sh(cmd, timeout=600, check=True)
    return out

def case_line(c):
    ty, op, a, b = c
    if op == "fromstr":
        return "%s %s %s" % (ty, op, a.hex() if a else "-")
    if op in ("shl", "shr"):
        return "%s %s %x %d" % (ty, op, a, b)
    return "%s %s %x %x" % (ty, op, a, b)

def run_shim(shim, cases, timeout=600):
    """-> list of output strings, one per case; a case on which the process died gets 'CRASH:<stderr tail>'."""
    outs = []
    todo = list(cases)
    while todo:
        inp = "".join(case_line(c) + "\n" for c in todo).encode()
        env = dict(os.environ, ASAN_OPTIONS="detect_leaks=0:abort_on_error=0", UBSAN_OPTIONS="print_stacktrace=1")
        try:
            p = subprocess.run([shim], input=inp, stdout=subprocess.PIPE, stderr=subprocess.PIPE, timeout=timeout, env=env)
            so, se, rc = p.stdout, p.stderr, p.returncode
        except subprocess.TimeoutExpired as e:
            so, se, rc = e.stdout or b"", b"TIMEOUT", -9
        lines = so.decode("latin1").split("\n")
        if lines and lines[-1] == "": lines.pop()
        if rc == 0 and len(lines) == len(todo):
            outs += lines; todo = []
        else:
            k = min(len(lines), len(todo) - 1)       # stdout is line buffered: case k is the one that killed it
            outs += lines[:k]
            outs.append("CRASH:rc=%s %s" % (rc, se.decode("latin1")[-1200:]))
            todo = todo[k + 1:]
    return outs

# ------------------------------------------------------------------ Coq evaluation of the port

def limbs(x, n):
    return [(x >> (64 * i)) & (B - 1) for i in range(n)]

def zl(xs):
    return "[" + ";".join(str(x) for x in xs) + "]"

def coq_case(idx, c, out):
    """Coq literal for a case with the implementation's observed output, or None if the output is not a value"""
    ty, op, a, b = c
    n = nlimbs(ty)
    if out.startswith("E:") or out.startswith("CRASH"):
        return None
    if op == "fromstr":
        la = list(a); lb = []
    elif op == "from64":
        la = [a]; lb = []
    elif op in ("shl", "shr"):
        la = limbs(a, n); lb = [b]
    elif op in BINOPS or op in CMPOPS:
        la = limbs(a, n); lb = limbs(b, n)
    else:
        la = limbs(a, n); lb = []
    if op in CMPOPS:
        obs = [int(out)]
    elif op == "to64":
        obs = [int(out, 16)]
    elif op == "tostr":
        obs = list(out[2:].encode("latin1"))
    else:
        obs = limbs(int(out, 16), n)
    return "(%d, (%s, %d%%nat), %s, %s, %s, %s)" % (idx, "true" if signed(ty) else "false", n, OPCTOR[op],
                                                    zl(la), zl(lb), zl(obs))

def coq_eval_cases(tag, items):
    """items: list of (idx, case, out). Returns (set of bad idx, error text or None)."""
    lits = []
    for idx, c, out in items:
        l = coq_case(idx, c, out)
        if l is not None: lits.append(l)
    src = ("From Coq Require Import ZArith List.\nFrom FV Require Import Models.Bigint.\nImport ListNotations.\n"
           "Open Scope Z_scope.\nDefinition cases : list case := [\n" + ";\n".join(lits) + "\n].\n"
           "Eval vm_compute in (bad_ids cases).\n")
    try:
        ok, out = common.coq_eval(tag, src, timeout=900)
    finally:
        try: os.remove(os.path.join(common.GEN, "cases_%s.v" % tag))
        except OSError: pass
    bad = common.parse_bad_ids(out) if ok else None
    if bad is None:
        return set(), out[-2000:]
    return set(bad), None

# ------------------------------------------------------------------ shrinking a failing case

def fails_spec(c, out):
    e = spec(*c)
    return e is not None and out != e

def shrink(shim, c, pred):
    """greedy limb-wise simplification while pred(case, shim output) stays true"""
    ty, op, a, b = c
    if op in ("fromstr",):
        cur = c
        for _ in range(40):
            s = cur[2]
            cands = [(ty, op, s[:i] + s[i + 1:], 0) for i in range(len(s))]
            if not cands: break
            outs = run_shim(shim, cands)
            nxt = next((cc for cc, o in zip(cands, outs) if pred(cc, o)), None)
            if nxt is None: break
            cur = nxt
        return cur
    n = nlimbs(ty)
    cur = c
    def cost(cc):
        f = lambda x: sum(0 if l == 0 else 1 if l == 1 else 2 if l == B - 1 else 3 for l in limbs(x, n))
        return f(cc[2]) + (f(cc[3]) if op in BINOPS or op in CMPOPS else 0)
    for _ in range(12):
        cands = []
        for which in (2, 3):
            if which == 3 and not (op in BINOPS or op in CMPOPS): continue
            x = cur[which]
            for i in range(n):
                for nv in (0, 1, B - 1, 1 << 63):
                    y = (x & ~((B - 1) << (64 * i))) | (nv << (64 * i))
                    if y != x:
                        cc = list(cur); cc[which] = y; cc = tuple(cc)
                        if cost(cc) < cost(cur): cands.append(cc)
        if not cands: break
        outs = run_shim(shim, cands)
        good = [cc for cc, o in zip(cands, outs) if pred(cc, o)]
        if not good: break
        cur = min(good, key=cost)
    return cur

def describe(c, out):
    ty, op, a, b = c
    e = spec(*c)
    d = {"type": ty, "op": op, "shim_line": case_line(c), "observed": out, "expected": e}
    if op == "fromstr":
        d["text"] = a.decode("latin1")
    else:
        d["a"] = str(sval(ty, a)) if op != "from64" else hex(a)
        if op in BINOPS or op in CMPOPS: d["b"] = str(sval(ty, b))
        elif op in ("shl", "shr"): d["shift"] = b
    if e and not e.startswith("S:") and len(e) > 1 and op not in ("to64",):
        d["expected_value"] = str(sval(ty, int(e, 16)))
        try: d["observed_value"] = str(sval(ty, int(out, 16)))
        except ValueError: pass
    d["how"] = "echo '%s' | <cshim bigint_drv built from the working tree>" % case_line(c)
    return d

# ------------------------------------------------------------------ Ferret-level lowering sample

FOPS = {"add": "+", "sub": "-", "mul": "*", "div": "/", "mod": "%", "and": "&", "or": "|", "xor": "^", "pow": "**",
        "eq": "==", "lt": "<", "gt": ">", "ne": "!=", "le": "<=", "ge": ">="}

def lit(ty, x):
    return "%d" % sval(ty, x)

def ferret_program(r, ty, nops, gates):
    """one program exercising every lowered operator on operands of type ty. Returns (source, expected lines, descr)"""
    N = bits(ty); M = 1 << N
    src = ['import "std/io";', "", "fn main() {"]
    exp = []; descr = []
    k = 0
    def emit(expr_decl, expected, what):
        nonlocal k
        src.extend(expr_decl)
        exp.append(expected); descr.append(what)
        k += 1
    # (the parser has no binary & | ^, so the and/or/xor helpers are reachable only through the C entry points)
    oplist = ["add", "sub", "mul", "div", "mod", "pow", "eq", "lt", "gt", "ne", "le", "ge",
              "neg", "to64", "from64", "xfrom64", "fromsmall", "compound", "ctrl"]
    helpers = []
    for j in range(nops):
        op = oplist[j % len(oplist)]
        if op in ("add", "sub", "mul", "div", "mod", "pow"):
            a, b = gen_pair(r, ty, op)
            if op in ("div", "mod") and b == 0: b = 3
            if op == "pow": b = r.randrange(0, 90)
            e = spec(ty, op, a, b)
            emit(["  let a%d: %s = %s;" % (k, ty, lit(ty, a)), "  let b%d: %s = %s;" % (k, ty, lit(ty, b)),
                  "  let r%d := a%d %s b%d;" % (k, k, FOPS[op], k), '  io::Println("" + r%d);' % k],
                 str(sval(ty, int(e, 16))), "%s %s %s" % (lit(ty, a), FOPS[op], lit(ty, b)))
        elif op in ("eq", "lt", "gt", "ne", "le", "ge"):
            a, b = gen_pair(r, ty, "lt")
            A, Bv = sval(ty, a), sval(ty, b)
            res = {"eq": A == Bv, "lt": A < Bv, "gt": A > Bv, "ne": A != Bv, "le": A <= Bv, "ge": A >= Bv}[op]
            emit(["  let a%d: %s = %s;" % (k, ty, lit(ty, a)), "  let b%d: %s = %s;" % (k, ty, lit(ty, b)),
                  "  if a%d %s b%d { io::Println(\"T\"); } else { io::Println(\"F\"); }" % (k, FOPS[op], k)],
                 "T" if res else "F", "%s %s %s" % (lit(ty, a), FOPS[op], lit(ty, b)))
        elif op == "neg":
            if not signed(ty): continue
            a = gen_val(r, ty)
            emit(["  let a%d: %s = %s;" % (k, ty, lit(ty, a)), "  let r%d := -a%d;" % (k, k),
                  '  io::Println("" + r%d);' % k], str(sval(ty, (-a) % M)), "-(%s)" % lit(ty, a))
        elif op == "to64":
            a = gen_val(r, ty)
            t64 = "i64" if signed(ty) else "u64"
            v = a % B
            if signed(ty) and v >= B // 2: v -= B
            emit(["  let a%d: %s = %s;" % (k, ty, lit(ty, a)), "  let r%d := a%d as %s;" % (k, k, t64),
                  '  io::Println("" + r%d);' % k], str(v), "(%s) as %s" % (lit(ty, a), t64))
        elif op == "from64":
            t64 = "i64" if signed(ty) else "u64"
            x = gen_limb(r)
            v = x - B if signed(ty) and x >= B // 2 else x
            emit(["  let a%d: %s = %d;" % (k, t64, v), "  let r%d := a%d as %s;" % (k, k, ty),
                  '  io::Println("" + r%d);' % k], str(v), "(%d : %s) as %s" % (v, t64, ty))
        elif op == "xfrom64":
            # source of the opposite signedness: u64 -> i128/i256 keeps the value, i64 -> u128/u256 wraps mod 2^N
            t64 = "u64" if signed(ty) else "i64"
            x = r.choice([B - 1, B - 2, 2 ** 63, 2 ** 63 + 1, 2 ** 63 - 1, 1, 0]) if r.random() < 0.8 else gen_limb(r)
            v = x if t64 == "u64" else (x - B if x >= B // 2 else x)
            emit(["  let a%d: %s = %d;" % (k, t64, v), "  let r%d := a%d as %s;" % (k, k, ty),
                  '  io::Println("" + r%d);' % k], str(sval(ty, v % M)), "(%d : %s) as %s" % (v, t64, ty))
        elif op == "fromsmall":
            ts = r.choice(["i8", "u8", "i16", "u16", "i32", "u32"])
            w = int(ts[1:])
            x = r.choice([0, 1, (1 << (w - 1)) - 1, 1 << (w - 1), (1 << w) - 1])
            v = x - (1 << w) if ts[0] == "i" and x >= (1 << (w - 1)) else x
            emit(["  let a%d: %s = %d;" % (k, ts, v), "  let r%d := a%d as %s;" % (k, k, ty),
                  '  io::Println("" + r%d);' % k], str(sval(ty, v % M)), "(%d : %s) as %s" % (v, ts, ty))
        elif op == "ctrl":
            # the same large literal in a branch that is not taken / a loop that does not run, and again after it (seed C16e:
            # a literal materialised once per function, at its textually first use)
            a = gen_val(r, ty); c3 = gen_val(r, ty)
            A, C3 = sval(ty, a), sval(ty, c3)
            helpers.append("fn h%d(x: %s, flag: bool, n: i32) -> %s {\n  let r: %s = x;\n  if flag { r = r + %s; }\n  let i: i32 = 0;\n"
                           "  while i < n { r = r - %s; i = i + 1; }\n  r = r + %s;\n  return r;\n}\n" % (k, ty, ty, ty, lit(ty, c3), lit(ty, c3), lit(ty, c3)))
            kk = k
            for flag, n_ in ((False, 0), (True, 2), (False, 1), (True, 0)):
                e = (A + C3 * ((1 if flag else 0) - n_ + 1)) % M
                emit(['  io::Println("" + h%d(%s, %s, %d));' % (kk, lit(ty, a), "true" if flag else "false", n_)],
                     str(sval(ty, e)), "h(x=%s, flag=%s, n=%d) with literal %s" % (lit(ty, a), flag, n_, lit(ty, c3)))
        elif op == "compound":
            a, b = gen_pair(r, ty, "sub")
            c2 = gen_val(r, ty)
            e = (sval(ty, a) - sval(ty, b)) % M
            e = (sval(ty, e) * sval(ty, c2)) % M
            e = (sval(ty, e) + 1) % M
            emit(["  let a%d: %s = %s;" % (k, ty, lit(ty, a)), "  let b%d: %s = %s;" % (k, ty, lit(ty, b)),
                  "  let c%d: %s = %s;" % (k, ty, lit(ty, c2)),
                  "  a%d -= b%d;" % (k, k), "  a%d *= c%d;" % (k, k), "  a%d++;" % k,
                  '  io::Println("" + a%d);' % k], str(sval(ty, e)),
                 "a=%s; a -= %s; a *= %s; a++" % (lit(ty, a), lit(ty, b), lit(ty, c2)))
    src.append("}")
    src[2:2] = helpers
    return "\n".join(src) + "\n", exp, descr

def lowering_stage(run, work, nops):
    bad = 0
    for ty in TYPES:
        src, exp, descr = ferret_program(run.rng, ty, nops, None)
        res = common.compile_and_run(src, work, "low_" + ty, timeout=120)
        run.count("ferret_programs")
        if not res.get("accepted") or res.get("rc") != 0:
            run.violation("lowering:%s:build" % ty,
                          "generated %s program over lowered operators does not compile/run: %s" %
                          (ty, (res.get("cerr") or res.get("cout") or res.get("err") or "")[-400:]),
                          {"program": src, "result": {k: str(v)[-800:] for k, v in res.items()}}, no_input=True)
            bad += 1
            continue
        got = res["out"].split("\n")
        if got and got[-1] == "": got.pop()
        for i, (e, w) in enumerate(zip(exp, descr)):
            g = got[i] if i < len(got) else "<missing>"
            run.case(("ferret", ty, w), True)
            run.count("ferret_ops")
            if g != e:
                bad += 1
                run.violation("ferret:%s:%s" % (ty, w),
                              "Ferret program: %s over %s prints %s, mathematically %s" % (w, ty, g, e),
                              {"type": ty, "expression": w, "observed": g, "expected": e, "program": src, "line": i})
        if len(got) != len(exp):
            run.violation("lowering:%s:lines" % ty, "program printed %d lines, expected %d" % (len(got), len(exp)),
                          {"program": src, "stdout": res["out"][-2000:]}, no_input=True)
    return bad

# ------------------------------------------------------------------ main

def proof_stage(run):
    """run.proof, retried when common.grep_gate() trips over a cases_*.v of a concurrently running check that
    vanished between os.walk and open (observed: FileNotFoundError on another property's gen/cases file)."""
    for attempt in range(4):
        n_thm, n_obl = len(run.theorems), run.obligations
        try:
            return run.proof("Props/C16.v")
        except FileNotFoundError:
            del run.theorems[n_thm:]; run.obligations = n_obl
            time.sleep(1 + attempt)
    return run.proof("Props/C16.v")

def main(run):
    work = Work()
    quick = run.tier == "quick"
    shim = build_shim(work)
    run.rule = ("one case = (type, operation, operand bit patterns | text); distinct = distinct canonical shim lines; "
                "limbs drawn from {0,1,2,2^32-1,2^32,2^63-1,2^63,2^63+1,2^64-2,2^64-1} with p=.62, values also 2^k(+-1), "
                "sign boundaries, related pairs (a, a+-1, -a, ~a, a+-2^64), division pairs a=q*b+r with r at the edges")
    run.trusted += ["cshim/bigint_drv.c (hex <-> limb conversion, by-value and _ptr entry points both executed)",
                    "Python integer arithmetic as the spec-side oracle of harness/c16.py",
                    "clang -fsanitize=address,undefined build of runtime/core/bigint.c (64-bit limb configuration only)"]
    run.assumptions = ["64-bit limb configuration (FERRET_LIMB_BITS == 64, __int128 available); the 32-bit limb variant is not built here",
                       "outside the statement, checked only as model<->code correspondence: division by zero (returns 0), "
                       "negative exponent (returns 0), shift count <= 0 (identity), malformed text / '-' for unsigned (0 or the valid prefix)",
                       "malloc succeeds"]
    # ---- proof stage
    proof_ok = proof_stage(run)

    # ---- correspondence
    n_total = 24000 if quick else 600000
    n_coq = 3000 if quick else 48000
    corpus = corpus_cases()
    cases = corpus + gen_cases(run.rng, n_total)
    t0 = time.time()
    outs = run_shim(shim, cases)
    run.extra["shim_seconds"] = round(time.time() - t0, 2)
    spec_bad = []; other_bad = []
    in_domain = 0
    seen = set()
    for i, (c, o) in enumerate(zip(cases, outs)):
        line = case_line(c)
        run.case(line, True, sample={"case": line, "observed": o} if i % 4001 == 7 else None)
        run.count("op:" + c[1]); run.count("type:" + c[0])
        e = spec(*c)
        if o.startswith("CRASH") or o.startswith("E:"):
            other_bad.append((i, c, o))
        elif e is None:
            run.count("out_of_statement")
        else:
            in_domain += 1
            if o != e: spec_bad.append((i, c, o))
    run.extra["in_domain_cases"] = in_domain
    run.extra["corpus_cases"] = len(corpus)

    # model evaluation in Coq on a sample (all corpus cases + every k-th generated case + every failing case)
    step = max(1, len(cases) // n_coq)
    pick = sorted(set(list(range(len(corpus))) + list(range(len(corpus), len(cases), step)) + [i for i, _, _ in spec_bad[:50]]))
    items = [(i, cases[i], outs[i]) for i in pick]
    shard = 600
    shards = [items[j:j + shard] for j in range(0, len(items), shard)]
    t0 = time.time()
    results = common.pmap(lambda js: coq_eval_cases("c16_%d_%d" % (os.getpid(), js[0]), js[1]), list(enumerate(shards)),
                          workers=min(common.NCPU, 12))
    run.extra["coq_eval_seconds"] = round(time.time() - t0, 2)
    run.extra["coq_evaluated_cases"] = len(items)
    model_bad = set(); coq_err = None
    for bad, err in results:
        model_bad |= bad
        if err: coq_err = err
    if coq_err:
        run.violation("coq-eval", "the Gallina port could not be evaluated on the generated cases", {"log": coq_err}, no_input=True)

    # ---- verdicts
    reported = set()
    def report_spec(i, c, o):
        sc = shrink(shim, c, fails_spec)
        so = run_shim(shim, [sc])[0]
        key = "spec:" + case_line(sc)
        if key in reported: return
        reported.add(key)
        d = describe(sc, so)
        d["original_case"] = case_line(c)
        d["model_agrees_with_code"] = (i not in model_bad) if i in set(pick) else "not evaluated"
        run.violation(key, "%s %s: bigint.c returns %s, the exact result mod 2^%d is %s  [%s]" %
                      (sc[0], sc[1], d.get("observed_value", so), bits(sc[0]), d.get("expected_value", d["expected"]),
                       case_line(sc)), d)
    for i, c, o in spec_bad[:12]:
        report_spec(i, c, o)
    if len(spec_bad) > 12:
        run.extra["spec_failures_total"] = len(spec_bad)
        byop = {}
        for i, c, o in spec_bad: byop[c[0] + " " + c[1]] = byop.get(c[0] + " " + c[1], 0) + 1
        run.extra["spec_failures_by_op"] = byop
    for i, c, o in other_bad[:6]:
        run.violation("crash:" + case_line(c), "bigint.c %s on %s" % ("aborts (sanitizer/crash)" if o.startswith("CRASH") else
                      "by-value and _ptr entry points disagree", case_line(c)),
                      {"shim_line": case_line(c), "output": o})
    spec_bad_idx = set(i for i, _, _ in spec_bad)
    n_rep = 0
    for i in sorted(model_bad):
        if i in spec_bad_idx: continue
        if n_rep >= 6: break
        n_rep += 1
        c = cases[i]
        d = describe(c, outs[i])
        d["correspondence"] = "coq/Models/Bigint.v run_op disagrees with the implementation on this input"
        indom = spec(*c) is not None
        run.violation("model:" + case_line(c),
                      "port and implementation disagree on %s (%s): model no longer describes bigint.c" %
                      (case_line(c), "in-domain, the implementation matches the exact result" if indom
                       else "outside the statement: totalised branch changed"), d, no_input=True)
    run.extra["model_disagreements"] = len(model_bad)

    # ---- lowering sample through the real compiler
    lowering_stage(run, work, 57 if quick else 400)

    if not proof_ok and not run.violations:
        where, log = run.proof_failure
        run.violation("proof:C16:" + where, "Props/C16 no longer checks (%s)" % where,
                      {"theorem_file": "coq/Props/C16.v", "where": where, "log": log}, no_input=True)

def replay(run, path):
    r = json.load(open(path))
    rp = r.get("replay", {})
    print(json.dumps(r, indent=1)[:3000])
    if "shim_line" in rp:
        shim = build_shim(Work())
        p = subprocess.run([shim], input=(rp["shim_line"] + "\n").encode(), stdout=subprocess.PIPE, stderr=subprocess.PIPE)
        got = p.stdout.decode().strip()
        print("replayed: %s -> %s (expected %s)" % (rp["shim_line"], got, rp.get("expected")))
        return 0 if got == rp.get("expected") else 1
    return 0
