"""C02, binary-encoder stage: the LEB128 / string / section / locals / limits encoders of
/repo/internal/codegen/wasm/module.go against the WebAssembly binary format.

    import c02enc; ok = c02enc.stage(run)          (called from harness/c02.py)
    python3 harness/c02enc.py [quick|thorough]      (stand-alone self-test; writes no evidence file)

Proof stage : Props/C02Enc.v  (round trips through the specification decoders for every value of the type,
              shape, fuel, canonical-shortest form, sections, strings, locals, limits).
Tie         : the encoders are unexported, so a driver (hooks/wasmenc/main.go, virtually placed at
              <repo>/internal/verifhook/wasmenc) is built with `go build -tags verif -overlay`, the overlay ALSO
              adding hooks/wasmenc/export/verif_export.go to package wasm as <repo>/internal/codegen/wasm/
              verif_export.go (thin exported wrappers; nothing is written into the repository).  On
              boundary-weighted inputs the implementation's bytes are compared with the Gallina ports
              (vm_compute inside coqc: `bad_model`), fed to the specification decoders of Models/WasmEnc.v
              (`bad_spec`), and to an independent LEB128 decoder in this file (spec-side oracle).
Search      : an input whose implementation bytes do not decode back to it is a genuine VIOLATION (the one of
              smallest magnitude / length per kind is reported); bytes that decode correctly but differ from the
              port are reported with no-failing-input-found (model drift, e.g. a non-minimal encoding)."""
import os, sys, json, hashlib, subprocess, re, time, random
import common

NAME = "wasmenc"
VALTYPES = [0x7f, 0x7e, 0x7d, 0x7c]
SPEC_VALTYPES = {0x7f, 0x7e, 0x7d, 0x7c, 0x7b, 0x70, 0x6f}

# ------------------------------------------------------------------ driver build (overlay with the extra file)

def build_driver():
    """like common.build_hook, but (1) the overlay also adds the export file to package wasm and (2) the full
    compiler build of common.impl() is not needed: the binary is cached under .cache/wasmenc/<content hash of the
    tree + hook sources>."""
    import shutil
    h = common._impl.hash if common._impl is not None else common.repo_hash()
    srcdir = os.path.join(common.VERIF, "hooks", NAME)
    main_go = os.path.join(srcdir, "main.go")
    export_go = os.path.join(srcdir, "export", "verif_export.go")
    hh = hashlib.sha256(h.encode())
    for p in (main_go, export_go):
        hh.update(open(p, "rb").read())
    base = os.path.join(common.CACHE, NAME)
    d = os.path.join(base, hh.hexdigest()[:24])
    out = os.path.join(d, "hook_" + NAME)
    with common.flock("hook_" + NAME):
        if os.path.exists(os.path.join(d, "OK")):
            os.utime(d)
            return out
        shutil.rmtree(d, ignore_errors=True)
        os.makedirs(d)
        repl = {os.path.join(common.REPO, "internal", "verifhook", NAME, "main.go"): main_go,
                os.path.join(common.REPO, "internal", "codegen", "wasm", "verif_export.go"): export_go}
        ov = os.path.join(d, "overlay.json")
        json.dump({"Replace": repl}, open(ov, "w"))
        common.sh(["go", "build", "-tags", "verif", "-overlay", ov, "-o", out, "./internal/verifhook/" + NAME],
                  cwd=common.REPO, env=common.goenv(), timeout=900, check=True)
        open(os.path.join(d, "OK"), "w").write(h)
        ents = sorted((os.path.join(base, e) for e in os.listdir(base)), key=os.path.getmtime, reverse=True)
        for old in ents[6:]:
            if old != d: shutil.rmtree(old, ignore_errors=True)
    return out

# ------------------------------------------------------------------ spec-side oracle: an independent LEB128 reader

def uleb(b, i, bits):
    """WebAssembly uN: returns (value, next index) or None.  At most ceil(bits/7) bytes, value < 2^bits."""
    maxbytes = (bits + 6) // 7
    result = 0; shift = 0; n = 0
    while True:
        if i >= len(b) or n >= maxbytes: return None
        byte = b[i]; i += 1; n += 1
        result |= (byte & 0x7f) << shift
        shift += 7
        if not (byte & 0x80): break
    if result >> bits: return None
    return result, i

def sleb(b, i, bits):
    """WebAssembly sN: sign extension from bit 6 of the last byte; value must fit bits (two's complement)."""
    maxbytes = (bits + 6) // 7
    result = 0; shift = 0; n = 0
    while True:
        if i >= len(b) or n >= maxbytes: return None
        byte = b[i]; i += 1; n += 1
        result |= (byte & 0x7f) << shift
        shift += 7
        if not (byte & 0x80):
            if byte & 0x40: result -= 1 << shift
            break
    if not (-(1 << (bits - 1)) <= result < (1 << (bits - 1))): return None
    return result, i

def runs_norm(runs):
    """merge neighbouring equal runs, drop empty ones"""
    out = []
    for c, t in runs:
        if c == 0: continue
        if out and out[-1][1] == t: out[-1] = (out[-1][0] + c, t)
        else: out.append((c, t))
    return out

def runs_bytes(runs):
    return b"".join(bytes([t]) * c for c, t in runs)

def oracle(kind, inp, b):
    """None if the implementation's bytes b decode (by the binary format) to the input with nothing left over,
    else a short reason."""
    if kind in ("u32", "s32", "s64"):
        r = uleb(b, 0, 32) if kind == "u32" else sleb(b, 0, 32 if kind == "s32" else 64)
        lim = 10 if kind == "s64" else 5
        if len(b) > lim: return "%d bytes (more than %d)" % (len(b), lim)
        if r is None: return "not a valid %s LEB128 string" % kind
        if r[1] != len(b): return "decoding stops after %d of %d bytes (value read: %d)" % (r[1], len(b), r[0])
        if any(not (x & 0x80) for x in b[:-1]) or (b[-1] & 0x80): return "continuation bits malformed"
        if r[0] != inp: return "decodes to %d" % r[0]
        return None
    if kind == "lim":
        if not b or b[0] != 0: return "limits flag byte is not 0x00"
        r = uleb(b, 1, 32)
        if r is None or r[1] != len(b): return "min is not a valid u32 filling the rest"
        return None if r[0] == inp else "min decodes to %d" % r[0]
    if kind in ("str", "sec"):
        i = 0
        if kind == "sec":
            sid, runs = inp
            if not b or b[0] != sid: return "section id byte differs"
            i = 1
        else:
            runs = inp
        content = runs_bytes(runs)
        r = uleb(b, i, 32)
        if r is None: return "length is not a valid u32"
        if r[0] != len(content): return "length field decodes to %d, content has %d bytes" % (r[0], len(content))
        if b[r[1]:] != content: return "content bytes differ (or trailing bytes)"
        return None
    if kind == "loc":
        r = uleb(b, 0, 32)
        if r is None: return "group count is not a valid u32"
        n, i = r
        got = []
        for _ in range(n):
            r = uleb(b, i, 32)
            if r is None: return "a group count is not a valid u32"
            c, i = r
            if i >= len(b): return "truncated group"
            t = b[i]; i += 1
            if t not in SPEC_VALTYPES: return "0x%02x is not a value type" % t
            got.append((c, t))
        if i != len(b): return "%d trailing bytes" % (len(b) - i)
        if runs_norm(got) != runs_norm(inp):
            return "groups expand to %s" % (runs_norm(got)[:6],)
        return None
    return "unknown kind"

# ------------------------------------------------------------------ generators

def int_values(rng, bits, signed, nrand):
    lo, hi = (-(1 << (bits - 1)), (1 << (bits - 1)) - 1) if signed else (0, (1 << bits) - 1)
    vals = [0, 1, 2, 63, 64, 65, 127, 128, 129, 255, 256, 16383, 16384, 16385, lo, lo + 1, hi, hi - 1, 624485]
    if signed: vals += [-1, -2, -63, -64, -65, -66, -127, -128, -129, -130, -8192, -8193, -123456]
    for k in range(bits + 1):
        for d in (-1, 0, 1):
            vals.append((1 << k) + d)
            if signed: vals.append(-(1 << k) + d)
    for _ in range(nrand):
        k = rng.randint(0, bits - (1 if signed else 0))          # magnitude class: log-uniform
        v = rng.getrandbits(k) | ((1 << (k - 1)) if k and rng.random() < 0.7 else 0) if k else 0
        if rng.random() < 0.25:                                     # next to a 7-bit group boundary
            j = rng.randint(1, (bits + 6) // 7)
            v = (1 << (7 * j - (1 if signed else 0))) + rng.randint(-3, 3)
        if signed and rng.random() < 0.5: v = -v - rng.randint(0, 1)
        vals.append(v)
    seen = set(); out = []
    for v in vals:
        if lo <= v <= hi and v not in seen:
            seen.add(v); out.append(v)
    return out

LENS = [0, 1, 2, 126, 127, 128, 129, 255, 256, 16383, 16384, 16385]

def content_runs(rng, n):
    """a byte string of length n as runs (count, byte)"""
    if n == 0: return []
    mode = rng.randrange(3)
    if mode == 0 or n > 400:                       # few long runs
        k = rng.randint(1, 4); cuts = sorted(rng.randint(0, n) for _ in range(k - 1))
        runs = []; prev = 0
        for c in cuts + [n]:
            if c > prev: runs.append((c - prev, rng.choice([0, 0x41, 0x7f, 0x80, 0xff, rng.randrange(256)])))
            prev = c
        return runs
    return [(1, rng.randrange(256)) for _ in range(n)]          # arbitrary bytes (UTF-8 validity is not the encoder's business)

def locals_cases(rng, quick):
    cs = [[]]
    for n in [1, 2, 3, 126, 127, 128, 129, 16383, 16384, 16385, 20000]:
        cs.append([(n, rng.choice(VALTYPES))])
    cs.append([(127, 0x7f), (128, 0x7e), (16384, 0x7d), (1, 0x7c), (300, 0x7f)])
    cs.append([(100, 0x7f), (50, 0x7f), (1, 0x7e), (1, 0x7e), (70000, 0x7c)])      # equal neighbouring runs: must be merged
    for g in [127, 128, 129, 200]:                                                    # number of groups around 127/128
        cs.append([(rng.choice([1, 1, 2, 3]), VALTYPES[i % 2 + (2 if i % 7 == 0 else 0)]) for i in range(g)])
    for _ in range(12 if quick else 150):
        k = rng.randint(1, 12)
        cs.append([(rng.choice([1, 1, 2, 5, 127, 128, 130, rng.randint(1, 400), rng.choice([16384, 16500, 40000])]),
                    rng.choice(VALTYPES)) for _ in range(k)])
    if not quick:
        cs.append([(1, VALTYPES[i % 2]) for i in range(16390)])                      # > 16384 groups
        cs.append([((1 << 21) + 1, 0x7e), (5, 0x7f)])                                # a 4-byte count
    return cs

def gen_cases(run):
    # seeded like run.rng (property id + VERIF_SEED) but a stream of its own: calling this stage must not shift the
    # program stream that harness/c02.py draws from run.rng (its corpus / known-finding keys are program hashes)
    rng = random.Random("%s/wasmenc/%d" % (run.pid, run.seed))
    quick = run.tier == "quick"
    m = 1 if quick else 25
    cases = []                                    # (kind, input)
    for v in int_values(rng, 32, False, 250 * m): cases.append(("u32", v))
    for v in int_values(rng, 32, True, 250 * m): cases.append(("s32", v))
    for v in int_values(rng, 64, True, 330 * m): cases.append(("s64", v))
    for v in int_values(rng, 32, False, 0)[::4]: cases.append(("lim", v))
    for l in locals_cases(rng, quick): cases.append(("loc", l))
    lens = list(LENS) + [rng.randint(0, 300) for _ in range(8 if quick else 120)]
    if not quick: lens += [(1 << 21) - 1, 1 << 21, (1 << 21) + 1]
    for n in lens:
        cases.append(("str", content_runs(rng, n)))
        cases.append(("sec", (rng.choice([0, 1, 2, 3, 5, 6, 7, 10, 11, 12]), content_runs(rng, n))))
    return cases

# ------------------------------------------------------------------ rendering

def rle_text(runs):
    return ",".join("%d:%d" % (c, t) for c, t in runs if c) or "-"

def request(kind, inp):
    if kind in ("u32", "s32", "s64", "lim"): return "%s %d" % (kind, inp)
    if kind in ("loc", "str"): return "%s %s" % (kind, rle_text(inp))
    return "sec %d %s" % (inp[0], rle_text(inp[1]))

def coq_runs(runs):
    return "[" + "; ".join("(%d, %d)" % (c, t) for c, t in runs if c) + "]"

def blocks(b):
    """bytes -> [(count, block bytes)]: greedy detection of repeated blocks of period 1..4 (covers long runs and the
    alternating group patterns of encodeLocals); everything else becomes literal blocks with count 1"""
    out = []; lit = bytearray(); i = 0; n = len(b)
    while i < n:
        best = None
        for p in (1, 2, 3, 4):
            if i + 2 * p > n or b[i + p:i + 2 * p] != b[i:i + p]: continue
            blk = b[i:i + p]; k = 2
            while b[i + k * p:i + (k + 1) * p] == blk: k += 1
            if k * p >= 12 and (best is None or k * p > best[0] * best[1]): best = (k, p)
        if best:
            if lit: out.append((1, bytes(lit))); lit = bytearray()
            out.append((best[0], b[i:i + best[1]])); i += best[0] * best[1]
        else:
            lit.append(b[i]); i += 1
    if lit: out.append((1, bytes(lit)))
    return out

def coq_obs(b):
    """observed bytes as repeated blocks (Models/WasmEnc.v expand_blocks)"""
    return "[" + "; ".join("(%d, [%s])" % (c, "; ".join(str(x) for x in blk)) for c, blk in blocks(b)) + "]"

def coq_case(kind, inp):
    if kind == "u32": return "CU32 (%d)" % inp
    if kind == "s32": return "CS32 (%d)" % inp
    if kind == "s64": return "CS64 (%d)" % inp
    if kind == "lim": return "CLimits (%d)" % inp
    if kind == "loc": return "CLocals %s" % coq_runs(inp)
    if kind == "str": return "CString %s" % coq_runs(inp)
    return "CSection (%d) %s" % (inp[0], coq_runs(inp[1]))

HEADER = """From Coq Require Import ZArith List.
Import ListNotations.
Open Scope Z_scope.
From FV Require Import Models.WasmEnc.
Definition cases : list enc_row := [
"""

def coq_compare(rows, tag):
    """rows: list of (id, kind, input, observed bytes).  Returns (bad_model ids, bad_spec ids) or None (coqc failed), log"""
    body = ";\n".join("(%d, %s, %s)" % (i, coq_case(k, inp), coq_obs(b)) for i, k, inp, b in rows)
    content = HEADER + body + "\n].\nEval vm_compute in (bad_model cases).\nEval vm_compute in (bad_spec cases).\n"
    ok, out = common.coq_eval("c02enc_" + tag, content, timeout=1200)
    found = re.findall(r"=\s*(\[[^\]]*\]|nil)\s*(?:%\w+)?\s*:\s*list\s+Z", out, re.S)
    if not ok or len(found) != 2:
        return None, out
    res = []
    for body in found:
        res.append([] if body in ("nil", "[]") else [int(x) for x in re.findall(r"-?\d+", body.replace("%Z", ""))])
    return (res[0], res[1]), out

# ------------------------------------------------------------------ the stage

def _weight(kind, inp):
    """ordering for 'the simplest failing input first'"""
    if kind in ("u32", "s32", "s64", "lim"): return (abs(inp), inp < 0)
    runs = inp[1] if kind == "sec" else inp
    return (sum(c for c, _ in runs), len(runs))

def _show(kind, inp):
    if kind in ("u32", "s32", "s64", "lim"): return str(inp)
    if kind == "sec": return "id=%d content=%s" % (inp[0], rle_text(inp[1])[:80])
    return rle_text(inp)[:80]

def run_driver(drv, cases, max_restarts=14):
    """answers[i] = hex line | 'ERR ..' | 'PANIC ..' | 'TIMEOUT' | 'DIED ..' | None (not run: too many restarts).
    The driver exits after a request that does not return (TIMEOUT) and dies when a runaway loop exhausts the
    capped address space; it is restarted behind the offending request."""
    answers = [None] * len(cases)
    todo = list(range(len(cases)))
    restarts = 0; hung = {}
    while todo and restarts <= max_restarts:
        inp = "".join(request(*cases[i]) + "\n" for i in todo).encode()
        try:
            p = subprocess.run([drv], input=inp, stdout=subprocess.PIPE, stderr=subprocess.PIPE, timeout=600,
                               preexec_fn=common.limit_mem(3))
            out, rc, err = p.stdout, p.returncode, p.stderr.decode("utf8", "replace")
        except subprocess.TimeoutExpired as e:
            out, rc, err = e.stdout or b"", -9, "driver timeout"
        text = out.decode("ascii", "replace")
        lines = text.splitlines()
        if text and not text.endswith("\n"): lines = lines[:-1]          # a torn last line of a dying process
        for i, line in zip(todo, lines):
            answers[i] = line
        if len(lines) >= len(todo): break
        if not (lines and lines[-1] == "TIMEOUT"):
            culprit = todo[len(lines)]
            answers[culprit] = "DIED rc=%s %s" % (rc, " ".join(err.split())[:300])
            todo = todo[len(lines) + 1:]
        else:
            culprit = todo[len(lines) - 1]
            todo = todo[len(lines):]
        hung[cases[culprit][0]] = hung.get(cases[culprit][0], 0) + 1
        todo = [i for i in todo if hung.get(cases[i][0], 0) < 3]      # three hangs of one encoder are enough
        restarts += 1
    return answers

def stage(run):
    t0 = time.time()
    prev_failure = getattr(run, "proof_failure", None); had_failure = hasattr(run, "proof_failure")
    prev_cmd = run.checker_cmd
    ok = run.proof("Props/C02Enc.v")
    my_failure = getattr(run, "proof_failure", None)
    if prev_cmd and prev_cmd != run.checker_cmd:
        run.checker_cmd = prev_cmd + "; " + run.checker_cmd
    if had_failure: run.proof_failure = prev_failure
    t_proof = time.time() - t0

    drv = build_driver()
    cases = gen_cases(run)
    lines = run_driver(drv, cases)
    if all(l is None for l in lines):
        run.violation("enc:driver", "the wasmenc driver gave no answer", {"kind": "driver"}, no_input=True)
        return False
    t_drv = time.time() - t0 - t_proof

    rows = []; genuine = {}                     # kind -> list of (weight, input, bytes, reason)
    for i, ((kind, x), line) in enumerate(zip(cases, lines)):
        if line is None:
            run.count("enc:not-run(driver restarted too often)")
            continue
        run.count("enc:" + kind)
        if kind in ("u32", "s32", "s64"):
            run.case(("enc", kind, x), True, {"encoder": kind, "value": x, "bytes": line} if i % 400 == 7 else None)
        else:
            run.case(("enc", kind, _show(kind, x), _weight(kind, x)), True,
                     {"encoder": kind, "input": _show(kind, x), "bytes": line[:40]} if i % 23 == 0 else None)
        if line.startswith("ERR"):
            run.violation("enc:driver-request", "driver rejected request %r: %s" % (request(kind, x)[:80], line),
                          {"request": request(kind, x)[:400], "answer": line}, no_input=True)
            continue
        if line.startswith(("TIMEOUT", "DIED", "PANIC")):
            why = {"T": "never arrive: the encoder does not return within 2 s", "D": "never arrive: the encoder brings the process down (%s)" % line[:200],
                   "P": "never arrive: the encoder panics (%s)" % line[:200]}[line[0]]
            genuine.setdefault(kind, []).append((_weight(kind, x), x, b"", why))
            continue
        b = bytes.fromhex(line)
        why = oracle(kind, x, b)
        if why is not None:
            genuine.setdefault(kind, []).append((_weight(kind, x), x, b, why))
        rows.append((i, kind, x, b))
        if kind in ("u32", "s32", "s64"): run.count("enc:%s:%d-byte" % (kind, len(b)))

    # model comparison + the specification decoders of the Coq development on the observed bytes
    def literal_size(r):                           # characters of the Coq literal of this row
        _, kind, x, b = r
        return len(coq_case(kind, x)) + len(coq_obs(b))
    shards = []; cur = []; cost = 0; fragile = set()
    for r in rows:
        ls = literal_size(r)
        if ls > 1500000:                           # (a broken encoder can produce megabytes) python oracle only
            run.count("enc:python-oracle-only(literal too large for coqc)")
            continue
        if ls > 40000:                             # its own coqc run; a parser stack overflow there is not a verdict
            fragile.add(len(shards)); shards.append([r]); continue
        c = 1 + (_weight(r[1], r[2])[0] // 400 if r[1] in ("loc", "str", "sec") else 0)
        if cur and cost + c > 1200: shards.append(cur); cur = []; cost = 0
        cur.append(r); cost += c
    if cur: shards.append(cur)
    results = common.pmap(lambda a: coq_compare(a[1], str(a[0])), list(enumerate(shards)), workers=max(1, min(4, len(shards))))
    bad_model = []; bad_spec = []; coq_failed = None
    for n, (res, out) in enumerate(results):
        if res is None and n in fragile and "Stack overflow" in out:
            run.count("enc:python-oracle-only(literal too large for coqc)")
        elif res is None: coq_failed = out
        else: bad_model += res[0]; bad_spec += res[1]
    byid = {r[0]: r for r in rows}
    for i in bad_spec:                             # the proved-correct decoder rejects what python accepted
        _, kind, x, b = byid[i]
        if not any(g[1] == x for g in genuine.get(kind, [])):
            genuine.setdefault(kind, []).append((_weight(kind, x), x, b, "rejected by the specification decoder of Models/WasmEnc.v"))
    t_coq = time.time() - t0 - t_proof - t_drv

    found_any = False
    for kind, lst in sorted(genuine.items()):
        lst.sort(key=lambda g: g[0])
        found_any = True
        _, x, b, why = lst[0]
        fn = {"u32": "encodeU32", "s32": "encodeS32", "s64": "encodeS64", "lim": "encodeLimits", "loc": "encodeLocals",
              "str": "encodeString", "sec": "emitSection"}[kind]
        nk = sum(1 for (k, _), l in zip(cases, lines) if k == kind and l is not None)
        if why.startswith("never arrive"):
            what = "wasm %s: on input %s the bytes %s (%d of %d inputs of this kind fail)" % (fn, _show(kind, x), why, len(lst), nk)
        else:
            what = "wasm %s: input %s is written as bytes [%s] which %s (%d of %d inputs of this kind fail)" % (
                fn, _show(kind, x), b[:16].hex(" "), why, len(lst), nk)
        run.violation("enc:%s:%s" % (kind, _show(kind, x)), what,
                      {"kind": kind, "input": x if kind in ("u32", "s32", "s64", "lim") else _show(kind, x),
                       "request_line": request(kind, x)[:2000], "implementation_bytes_hex": b[:64].hex(),
                       "why": why, "other_failing_inputs": [_show(kind, g[1]) for g in lst[1:8]],
                       "replay": "echo '<request_line>' | hook_wasmenc  (built by harness/c02enc.py build_driver)"})
    drift = {}
    for i in bad_model:
        _, kind, x, b = byid[i]
        if kind not in genuine:                 # a kind with a genuine violation is already reported with its input
            drift.setdefault(kind, []).append((_weight(kind, x), x, b))
    if drift:
        ex = []
        for kind, lst in sorted(drift.items()):
            lst.sort(key=lambda g: g[0])
            ex.append({"kind": kind, "input": _show(kind, lst[0][1]), "implementation_bytes_hex": lst[0][2][:64].hex(),
                       "inputs": [_show(kind, g[1]) for g in lst[:8]], "count": len(lst)})
        run.violation("encmodel:" + "+".join(sorted(drift)),
                      "wasm binary encoders (%s) no longer compute the bytes of their Gallina ports (Models/WasmEnc.v) although the bytes still decode to the "
                      "input, e.g. %s input %s -> [%s]; the theorems of Props/C02Enc.v do not speak about this code any more"
                      % (", ".join(sorted(drift)), ex[0]["kind"], ex[0]["input"], bytes.fromhex(ex[0]["implementation_bytes_hex"])[:16].hex(" ")),
                      {"correspondence": "bad_model (Models/WasmEnc.v) vs hooks/wasmenc", "examples": ex}, no_input=True)
    if coq_failed is not None:
        run.violation("enc:coq-eval", "the model evaluation of the encoder cases did not run", {"log": coq_failed[-3000:]}, no_input=True)
    if not ok and not found_any:
        where, log = my_failure if my_failure else ("?", "")
        run.violation("proof:C02Enc:" + where, "Props/C02Enc no longer checks (%s)" % where, {"where": where, "log": log}, no_input=True)
    run.extra["c02enc"] = {"cases": len(cases), "shards": len(shards), "bad_model": len(bad_model), "bad_spec": len(bad_spec),
                           "oracle_failures": sum(len(v) for v in genuine.values()),
                           "wall_s": {"proof": round(t_proof, 1), "driver": round(t_drv, 1), "coq_eval": round(t_coq, 1)}}
    run.trusted.append("hooks/wasmenc (driver + exported wrappers added to package wasm by go build -overlay; no repository file is written)")
    return ok and not genuine and not drift and coq_failed is None

if __name__ == "__main__":
    tier = sys.argv[1] if len(sys.argv) > 1 else "quick"
    run = common.Run("C02ENC", tier, int(os.environ.get("VERIF_SEED", "0") or 0))
    run.known = [k for k in common.load_known() if k["property"] == "C02"]
    res = stage(run)
    for key, what, path, no_input in run.violations:
        print("VIOLATION property=C02 replay=%s %s%s" % (path, what[:400], " no-failing-input-found" if no_input else ""))
    for kid, what in sorted(run.known_hit.items()):
        print("KNOWN-FINDING: property=C02 %s [%s]" % (what, kid))
    print("c02enc tier=%s seed=%d stage=%s obligations=%d discharged=%d evaluations=%d distinct=%d violations=%d wall=%.1fs %s" % (
        tier, run.seed, res, run.obligations, run.discharged, run.evaluations, len(run.distinct), len(run.violations),
        time.time() - run.t0, json.dumps(run.extra.get("c02enc", {}))))
    print("distribution: " + json.dumps(run.dist, sort_keys=True))
    sys.exit(1 if run.violations else 0)
