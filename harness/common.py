"""Shared machinery for the /verif checks (python3 stdlib only).

 * build of the implementation from /repo's *current working tree* (content-addressed cache of the
   resulting binaries under /verif/.cache; the scratch source copy lives in a mkdtemp and is removed)
 * hook programs injected with `go build -tags verif -overlay` (nothing is written into /repo)
 * C shims linking /repo/runtime sources with sanitizers
 * Coq: make under a lock, evaluation of generated `cases_*.v` files with vm_compute
 * Run: evidence, known findings, VIOLATION / KNOWN-FINDING lines, exit status
"""
import os, sys, json, hashlib, subprocess, tempfile, shutil, time, fcntl, random, re, atexit, contextlib
from concurrent.futures import ThreadPoolExecutor

VERIF = os.path.dirname(os.path.dirname(os.path.abspath(__file__)))
REPO = os.environ.get("VERIF_REPO", "/repo")
CACHE = os.path.join(VERIF, ".cache")
COQ = os.path.join(VERIF, "coq")
GEN = os.path.join(COQ, "gen")
NCPU = os.cpu_count() or 4

def goenv():
    e = dict(os.environ)
    e["GOFLAGS"] = "-mod=mod"
    e["GOPROXY"] = "off"
    e.pop("GOSUMDB", None)          # GOSUMDB=off / GOTOOLCHAIN=local break the switch to the cached go1.25.4
    e.pop("GOTOOLCHAIN", None)
    return e

def limit_mem(gib=6):
    """preexec_fn: cap the address space of a child (a runaway compiler must not take the sandbox down)"""
    import resource
    def f():
        lim = int(gib * (1 << 30))
        resource.setrlimit(resource.RLIMIT_AS, (lim, lim))
    return f

def sh(cmd, cwd=None, env=None, timeout=None, input=None, check=False):
    p = subprocess.run(cmd, cwd=cwd, env=env, timeout=timeout, input=input, shell=isinstance(cmd, str),
                       stdout=subprocess.PIPE, stderr=subprocess.PIPE)
    if check and p.returncode != 0:
        raise RuntimeError("command failed (%d): %s\n%s\n%s" % (p.returncode, cmd,
                           p.stdout.decode("utf8", "replace")[-4000:], p.stderr.decode("utf8", "replace")[-4000:]))
    return p

@contextlib.contextmanager
def flock(name):
    os.makedirs(CACHE, exist_ok=True)
    f = open(os.path.join(CACHE, name + ".lock"), "w")
    fcntl.flock(f, fcntl.LOCK_EX)
    try:
        yield
    finally:
        fcntl.flock(f, fcntl.LOCK_UN)
        f.close()

# ------------------------------------------------------------------ implementation build

_SKIP_DIRS = {".git"}

def repo_hash():
    h = hashlib.sha256()
    for root, dirs, files in os.walk(REPO):
        dirs[:] = sorted(d for d in dirs if d not in _SKIP_DIRS)
        for fn in sorted(files):
            p = os.path.join(root, fn)
            if os.path.islink(p):
                h.update(b"L" + p.encode() + os.readlink(p).encode())
                continue
            try:
                st = os.stat(p)
            except OSError:
                continue
            if st.st_size > 8 << 20:       # stray large binaries (app, ferret, ...) : name+size+mtime
                h.update(("B%s:%d:%d" % (p, st.st_size, int(st.st_mtime))).encode())
                continue
            h.update(b"F" + p.encode() + b"\0")
            with open(p, "rb") as f:
                h.update(f.read())
    return h.hexdigest()[:24]

class Impl:
    def __init__(self, d, h):
        self.dir = d
        self.hash = h
        self.ferret = os.path.join(d, "bin", "ferret")
        self.libs = os.path.join(d, "libs")

_impl = None

def _prune_cache(keep):
    base = os.path.join(CACHE, "impl")
    ents = [os.path.join(base, e) for e in os.listdir(base) if os.path.isdir(os.path.join(base, e))]
    ents.sort(key=lambda p: os.path.getmtime(p), reverse=True)
    for p in ents[int(os.environ.get("VERIF_CACHE_KEEP", "6")):]:
        if os.path.basename(p) != keep:
            shutil.rmtree(p, ignore_errors=True)

def impl(need_ferret=True):
    """Build ferret + runtime from /repo's working tree (cached by content hash)."""
    global _impl
    if _impl is not None:
        return _impl
    h = repo_hash()
    d = os.path.join(CACHE, "impl", h)
    with flock("impl_" + h):
        if not os.path.exists(os.path.join(d, "OK")):
            shutil.rmtree(d, ignore_errors=True)
            os.makedirs(d)
            scratch = tempfile.mkdtemp(prefix="fv_build_")
            try:
                src = os.path.join(scratch, "src")
                sh(["rsync", "-a", "--exclude", ".git", REPO + "/", src + "/"], check=True)
                shutil.rmtree(os.path.join(src, "libs", "toolchain"), ignore_errors=True)
                sh(["go", "run", "./tools"], cwd=src, env=goenv(), timeout=900, check=True)
                os.makedirs(os.path.join(d, "bin"))
                sh(["go", "build", "-o", os.path.join(d, "bin", "ferret"), "."], cwd=src, env=goenv(),
                   timeout=900, check=True)
                shutil.copytree(os.path.join(src, "libs"), os.path.join(d, "libs"))
                open(os.path.join(d, "OK"), "w").write(h)
            finally:
                shutil.rmtree(scratch, ignore_errors=True)
            with flock("impl_prune"):
                _prune_cache(h)
        os.utime(d)
    _impl = Impl(d, h)
    return _impl

def build_hook(name):
    """Build hooks/<name>/main.go as package main *virtually* placed at /repo/internal/verifhook/<name>."""
    im = impl()
    out = os.path.join(im.dir, "hook_" + name)
    srcdir = os.path.join(VERIF, "hooks", name)
    with flock("hook_" + name):
        stamp = out + ".stamp"
        hh = hashlib.sha256()
        for fn in sorted(os.listdir(srcdir)):
            hh.update(open(os.path.join(srcdir, fn), "rb").read())
        if os.path.exists(out) and os.path.exists(stamp) and open(stamp).read() == hh.hexdigest():
            return out
        repl = {}
        for fn in sorted(os.listdir(srcdir)):
            if fn.endswith(".go"):
                repl[os.path.join(REPO, "internal", "verifhook", name, fn)] = os.path.join(srcdir, fn)
        ov = os.path.join(im.dir, "overlay_%s.json" % name)
        json.dump({"Replace": repl}, open(ov, "w"))
        sh(["go", "build", "-tags", "verif", "-overlay", ov, "-o", out, "./internal/verifhook/" + name],
           cwd=REPO, env=goenv(), timeout=900, check=True)
        open(stamp, "w").write(hh.hexdigest())
    return out

def build_gomod(name):
    """Build hooks/<name> as a separate module with `replace compiler => /repo` (public packages only)."""
    im = impl()
    out = os.path.join(im.dir, "mod_" + name)
    srcdir = os.path.join(VERIF, "hooks", name)
    with flock("mod_" + name):
        hh = hashlib.sha256()
        for fn in sorted(os.listdir(srcdir)):
            hh.update(open(os.path.join(srcdir, fn), "rb").read())
        stamp = out + ".stamp"
        if os.path.exists(out) and os.path.exists(stamp) and open(stamp).read() == hh.hexdigest():
            return out
        scratch = tempfile.mkdtemp(prefix="fv_mod_")
        try:
            for fn in os.listdir(srcdir):
                shutil.copy(os.path.join(srcdir, fn), scratch)
            gm = open(os.path.join(REPO, "go.mod")).read()
            gover = re.search(r"^go\s+(\S+)", gm, re.M).group(1)
            open(os.path.join(scratch, "go.mod"), "w").write(
                "module verifhook\n\ngo %s\n\nrequire compiler v0.0.0\n\nreplace compiler => %s\n" % (gover, REPO))
            if os.path.exists(os.path.join(REPO, "go.sum")):
                shutil.copy(os.path.join(REPO, "go.sum"), scratch)
            sh(["go", "build", "-o", out, "."], cwd=scratch, env=goenv(), timeout=900, check=True)
            open(stamp, "w").write(hh.hexdigest())
        finally:
            shutil.rmtree(scratch, ignore_errors=True)
    return out

def build_cshim(name, repo_sources, extra_flags=(), sanitize=True):
    """Compile cshim/<name>.c together with runtime sources from /repo."""
    im = impl()
    out = os.path.join(im.dir, "cshim_" + name + ("_san" if sanitize else ""))
    src = os.path.join(VERIF, "cshim", name + ".c")
    with flock("cshim_" + name):
        stamp = out + ".stamp"
        hh = hashlib.sha256(open(src, "rb").read()).hexdigest()
        if os.path.exists(out) and os.path.exists(stamp) and open(stamp).read() == hh:
            return out
        flags = ["-std=gnu99", "-O1", "-g", "-w", "-I", os.path.join(REPO, "runtime", "core"),
                 "-I", os.path.join(REPO, "runtime", "libs")]
        if sanitize:
            flags += ["-fsanitize=address,undefined", "-fno-sanitize-recover=undefined", "-fno-omit-frame-pointer"]
        cmd = ["clang"] + flags + list(extra_flags) + [src] + [os.path.join(REPO, s) for s in repo_sources] + \
              ["-o", out, "-lm"]
        sh(cmd, timeout=600, check=True)
        open(stamp, "w").write(hh)
    return out

# ------------------------------------------------------------------ running ferret

class Work:
    """A scratch directory outside /repo and /verif, removed at exit."""
    def __init__(self, prefix="fv_work_"):
        self.dir = tempfile.mkdtemp(prefix=prefix)
        atexit.register(shutil.rmtree, self.dir, True)
    def path(self, *a):
        p = os.path.join(self.dir, *a)
        os.makedirs(os.path.dirname(p), exist_ok=True)
        return p
    def sub(self, name):
        p = os.path.join(self.dir, name)
        os.makedirs(p, exist_ok=True)
        return p

ANSI = re.compile(r"\x1b\[[0-9;]*[A-Za-z]")

def strip_ansi(s):
    return ANSI.sub("", s)

def ferret(args, cwd=None, timeout=60):
    """Run the freshly built compiler. Returns (rc, stdout, stderr) with ANSI colours stripped; rc=-9 on timeout."""
    im = impl()
    try:
        p = subprocess.run([im.ferret] + list(args), cwd=cwd, stdout=subprocess.PIPE, stderr=subprocess.PIPE,
                           timeout=timeout, env=dict(os.environ, NO_COLOR="1"), preexec_fn=limit_mem())
        return p.returncode, strip_ansi(p.stdout.decode("utf8", "replace")), strip_ansi(p.stderr.decode("utf8", "replace"))
    except subprocess.TimeoutExpired:
        return -9, "", "TIMEOUT"

def typecheck(path, cwd=None, timeout=60):
    return ferret(["-t", path], cwd=cwd, timeout=timeout)

def run_exe(path, timeout=10, input=None):
    """Run a produced executable with stdout on a pipe. Returns (rc, stdout, stderr)."""
    try:
        p = subprocess.run(["/bin/sh", "-c", "ulimit -v 4000000; exec \"$0\"", path], stdout=subprocess.PIPE,
                           stderr=subprocess.PIPE, timeout=timeout, input=input)
        return p.returncode, p.stdout.decode("utf8", "replace"), p.stderr.decode("utf8", "replace")
    except subprocess.TimeoutExpired:
        return -9, "", "TIMEOUT"

def compile_and_run(src_text, work, name, target="native", timeout=20):
    """Write src_text to <work>/<name>/main.fer, compile and run. Returns dict(accepted, rc, out, err, cout, cerr)."""
    d = work.sub(name)
    f = os.path.join(d, "main.fer")
    open(f, "w").write(src_text)
    if target == "native":
        exe = os.path.join(d, "prog")
        rc, o, e = ferret(["-o", exe, f], cwd=d, timeout=timeout)
        res = dict(accepted=(rc == 0), crc=rc, cout=o, cerr=e, exe_exists=os.path.exists(exe))
        if rc == 0 and os.path.exists(exe):
            r, so, se = run_exe(exe, timeout=timeout)
            res.update(rc=r, out=so, err=se)
        return res
    else:
        wasm = os.path.join(d, "prog.wasm")
        rc, o, e = ferret(["-target", "wasm", "-o", wasm, f], cwd=d, timeout=timeout)
        res = dict(accepted=(rc == 0), crc=rc, cout=o, cerr=e, exe_exists=os.path.exists(wasm))
        if rc == 0 and os.path.exists(wasm):
            try:
                p = subprocess.run(["node", os.path.join(VERIF, "js", "run.mjs"), wasm,
                                    os.path.join(REPO, "runtime", "wasm", "runtime.js")],
                                   stdout=subprocess.PIPE, stderr=subprocess.PIPE, timeout=timeout)
                res.update(rc=p.returncode, out=p.stdout.decode("utf8", "replace"), err=p.stderr.decode("utf8", "replace"))
            except subprocess.TimeoutExpired:
                res.update(rc=-9, out="", err="TIMEOUT")
        return res

def pmap(fn, items, workers=None):
    with ThreadPoolExecutor(max_workers=workers or NCPU) as ex:
        return list(ex.map(fn, items))

# ------------------------------------------------------------------ Coq

FORBIDDEN = re.compile(r"\b(Admitted|admit|Axiom|Axioms|Parameter|Parameters|Conjecture|Conjectures|Admit Obligations)\b"
                       r"|Unset\s+Guard|bypass_check|type-in-type|impredicative-set|Unset\s+Universe|Unset\s+Positivity")
ALLOWED_AXIOMS = set()   # the development is axiom-free; std-library axioms would have to be named here and in DESIGN.md

def strip_coq_comments(s):
    out = []; depth = 0; i = 0
    while i < len(s):
        if s.startswith("(*", i):
            depth += 1; i += 2
        elif s.startswith("*)", i) and depth > 0:
            depth -= 1; i += 2
        else:
            if depth == 0:
                out.append(s[i])
            i += 1
    return "".join(out)

def grep_gate():
    """Reject forbidden vernacular anywhere in the development (generated files included)."""
    bad = []
    for root, dirs, files in os.walk(COQ):
        for fn in files:
            if fn.endswith(".v"):
                p = os.path.join(root, fn)
                try:
                    txt = strip_coq_comments(open(p, encoding="utf8", errors="replace").read())
                except FileNotFoundError:      # another check's transient cases_*.v
                    continue
                txt = re.sub(r'"[^"]*"', '""', txt)
                for m in FORBIDDEN.finditer(txt):
                    bad.append("%s: %s" % (os.path.relpath(p, VERIF), m.group(0)))
    for fn in ("_CoqProject",):
        p = os.path.join(COQ, fn)
        if os.path.exists(p):
            t = open(p).read()
            if "type-in-type" in t or "impredicative-set" in t:
                bad.append("_CoqProject: forbidden flag")
    return bad

def coq_project_files():
    fs = []
    for root, dirs, files in os.walk(COQ):
        dirs.sort()
        for fn in sorted(files):
            if fn.endswith(".v") and not fn.startswith("cases_") and not fn.startswith("."):
                fs.append(os.path.relpath(os.path.join(root, fn), COQ))
    return fs

def coq_refresh_makefile():
    files = coq_project_files()
    content = "-Q . FV\n-arg -w -arg -notation-overridden,-deprecated-hint-without-locality,-deprecated-instance-without-locality\n" + "\n".join(files) + "\n"
    cp = os.path.join(COQ, "_CoqProject")
    old = open(cp).read() if os.path.exists(cp) else None
    if old != content or not os.path.exists(os.path.join(COQ, "Makefile")):
        open(cp, "w").write(content)
        sh(["coq_makefile", "-f", "_CoqProject", "-o", "Makefile"], cwd=COQ, check=True)

def coq_make(targets=(), timeout=3000):
    """Full .vo build of the given targets (all if empty). Returns (ok, log).
    Fast path without the lock: if the project file list is current and `make -q` says the targets are up to date."""
    files = coq_project_files()
    cp = os.path.join(COQ, "_CoqProject")
    if targets and os.path.exists(cp) and os.path.exists(os.path.join(COQ, "Makefile")):
        cur = open(cp).read()
        if all((f in cur) for f in files):
            q = sh(["make", "-q"] + list(targets), cwd=COQ)
            if q.returncode == 0:
                return True, "(up to date)"
    with flock("coqmake"):
        for attempt in range(3):
            coq_refresh_makefile()
            cmd = ["timeout", str(timeout), "make", "-j%d" % NCPU] + list(targets)
            p = sh(cmd, cwd=COQ)
            log = p.stdout.decode("utf8", "replace") + p.stderr.decode("utf8", "replace")
            if p.returncode != 0 and "No rule to make target" in log:
                # a source file listed in _CoqProject vanished (transient file of a concurrent writer): rebuild the file list
                for fn in ("_CoqProject", ".Makefile.d"):
                    try: os.remove(os.path.join(COQ, fn))
                    except OSError: pass
                continue
            break
        return p.returncode == 0, log

def coq_compile_log(vfile, timeout=1200):
    """Recompile one project file with coqc into a scratch output (the shared .vo is not touched, no lock needed)
    and return (ok, output) — used to capture Print Assumptions."""
    d = tempfile.mkdtemp(prefix="fv_coqlog_")
    try:
        p = sh(["timeout", str(timeout), "coqc", "-Q", ".", "FV", "-w", "-notation-overridden",
                "-o", os.path.join(d, os.path.basename(vfile) + "o"), vfile], cwd=COQ)
        return p.returncode == 0, p.stdout.decode("utf8", "replace") + p.stderr.decode("utf8", "replace")
    finally:
        shutil.rmtree(d, ignore_errors=True)

def parse_assumptions(log):
    """Return list of axioms reported by Print Assumptions in a coqc log, and the number of 'Closed' reports."""
    closed = len(re.findall(r"Closed under the global context", log))
    axioms = []
    for blk in re.findall(r"Axioms:\n((?:.+\n?)+?)(?:\n|$)", log):
        for line in blk.splitlines():
            m = re.match(r"^(\S+)\s*:", line)
            if m:
                axioms.append(m.group(1))
    return closed, axioms

def count_theorems(vfile):
    txt = strip_coq_comments(open(os.path.join(COQ, vfile)).read())
    return re.findall(r"^\s*(?:Theorem|Lemma|Corollary)\s+(\w+)", txt, re.M)

def coq_eval(name, content, timeout=1200, mem_kb=12000000):
    """Write coq/gen/cases_<name>.v and run coqc on it (no lock: it only reads compiled .vo). Returns (ok, output)."""
    os.makedirs(GEN, exist_ok=True)
    name = "%s_p%d" % (name, os.getpid())
    p = os.path.join(GEN, "cases_%s.v" % name)
    open(p, "w").write(content)
    try:
        r = sh("ulimit -v %d; exec timeout %d coqc -Q . FV -w -notation-overridden gen/cases_%s.v" % (mem_kb, timeout, name),
               cwd=COQ)
        out = r.stdout.decode("utf8", "replace") + r.stderr.decode("utf8", "replace")
        return r.returncode == 0, out
    finally:
        for ext in (".vo", ".vok", ".vos", ".glob", ".v"):
            try: os.remove(os.path.join(GEN, "cases_%s%s" % (name, ext)))
            except OSError: pass
        try: os.remove(os.path.join(GEN, ".cases_%s.aux" % name))
        except OSError: pass

def coq_str(s):
    """Python str/bytes -> Coq string literal (bytes >= 128 are not representable in a literal: use coq_bytes)."""
    if isinstance(s, bytes):
        s = s.decode("latin1")
    return '"' + s.replace('"', '""') + '"'

def coq_bytes(b):
    """bytes -> Coq `list Z` literal (portable for arbitrary bytes)."""
    if isinstance(b, str):
        b = b.encode("utf8")
    return "[" + "; ".join(str(x) for x in b) + "]%Z"

def coq_z(n):
    return "(%d)%%Z" % n

def coq_list(xs):
    return "[" + "; ".join(xs) + "]"

def coq_bool(b):
    return "true" if b else "false"

def parse_bad_ids(out):
    """Output of `Eval vm_compute in (bad ...)` where bad : list Z — returns list of ints, or None if unparsable."""
    m = re.search(r"=\s*(\[[^\]]*\]|nil)\s*(?:%\w+)?\s*:\s*list\s+Z", out, re.S)
    if not m:
        return None
    body = m.group(1)
    if body in ("nil", "[]"):
        return []
    return [int(x) for x in re.findall(r"-?\d+", body.replace("%Z", ""))]

# ------------------------------------------------------------------ known findings / evidence / reporting

def load_known():
    """known findings: harness/meta/Cxx.findings.json are the sources; known_findings.json is their committed merge
    (regenerated by harness/mkmanifest.py). Never written at run time."""
    out = []
    md = os.path.join(VERIF, "harness", "meta")
    for fn in sorted(os.listdir(md)):
        if fn.endswith(".findings.json"):
            out += json.load(open(os.path.join(md, fn))).get("findings", [])
    return out

class Run:
    def __init__(self, pid, tier, seed):
        self.pid = pid; self.tier = tier; self.seed = seed
        self.t0 = time.time()
        self.rng = random.Random("%s/%d" % (pid, seed))
        self.evaluations = 0
        self.distinct = set()
        self.samples = []
        self.violations = []      # (key, what, replay path)
        self.known_hit = {}       # id -> what
        self.obligations = 0
        self.discharged = 0
        self.theorems = []
        self.checker_cmd = ""
        self.extra = {}
        self.assumptions = []
        self.trusted = ["Coq 8.16.1 kernel (coqc, full .vo build, vm_compute used, native_compute not used)",
                        "Print Assumptions of every Props theorem: Closed under the global context (no axioms)",
                        "harness/common.py build + correspondence harness (python3 stdlib)"]
        self.known = [k for k in load_known() if k["property"] == pid]
        self.rule = ""
        self.dist = {}
        os.makedirs(os.path.join(VERIF, "evidence"), exist_ok=True)
        os.makedirs(os.path.join(VERIF, "replays"), exist_ok=True)
        replaying = "--replay" in sys.argv                           # a replay run reads such a file: keep them
        for fn in os.listdir(os.path.join(VERIF, "replays")):      # replays of earlier runs of this property are stale
            if fn.startswith(pid + "_") and not replaying:
                try: os.remove(os.path.join(VERIF, "replays", fn))
                except OSError: pass

    # ---- counting
    def case(self, canon, nontrivial=True, sample=None):
        self.evaluations += 1
        if nontrivial:
            self.distinct.add(hashlib.sha256(repr(canon).encode()).hexdigest()[:16])
        if sample is not None and len(self.samples) < 6:
            self.samples.append(sample)
    def count(self, key, n=1):
        self.dist[key] = self.dist.get(key, 0) + n

    # ---- proof stage
    def proof(self, props_file, extra_targets=()):
        """make Props/<file>.vo and everything it needs; parse Print Assumptions; grep gate."""
        names = count_theorems(props_file)
        self.theorems += names
        self.obligations += len(names)
        self.checker_cmd = "make -C coq %s (coqc 8.16.1, full .vo); Print Assumptions under each theorem" % props_file.replace(".v", ".vo")
        bad = grep_gate()
        if bad:
            self.violation("gate:" + bad[0], "forbidden vernacular in the Coq development: " + "; ".join(bad[:5]),
                           {"kind": "grep-gate", "hits": bad}, no_input=True)
            return False
        ok, log = coq_make([props_file.replace(".v", ".vo")] + list(extra_targets))
        if not ok:
            # which theorem? find the failing file / line
            m = re.search(r'File "([^"]+)", line (\d+)', log)
            where = "%s:%s" % (m.group(1), m.group(2)) if m else "?"
            self.proof_failure = (where, log[-3000:])
            return False
        ok2, out = coq_compile_log(props_file)
        closed, axioms = parse_assumptions(out)
        bad_ax = [a for a in axioms if a not in ALLOWED_AXIOMS]
        if not ok2 or bad_ax or closed < len(names):
            self.proof_failure = ("assumptions", "closed=%d theorems=%d axioms=%s\n%s" % (closed, len(names), axioms, out[-2000:]))
            return False
        if self.tier == "thorough" and os.environ.get("VERIF_NO_COQCHK") != "1":
            # independent re-check of the compiled Props module and everything it depends on, with its axiom summary
            mod = "FV." + props_file[:-2].replace("/", ".")
            with flock("coqmake"):
                p = sh("timeout 3000 coqchk -silent -o -Q . FV %s" % mod, cwd=COQ)
            out = p.stdout.decode("utf8", "replace") + p.stderr.decode("utf8", "replace")
            okc = (p.returncode == 0 and "Axioms: <none>" in out and "type-in-type: <none>" in out
                   and "unsafe (co)fixpoints: <none>" in out and "positivity is assumed: <none>" in out)
            self.extra["coqchk"] = {"module": mod, "ok": okc, "summary": out[-600:]}
            if not okc:
                self.proof_failure = ("coqchk", out[-2000:])
                return False
        self.discharged += len(names)
        self.proof_failure = None
        return True

    # ---- findings
    def _match_known(self, key):
        for k in self.known:
            if k.get("status") == "open" and k["key"] == key:
                return k
        return None

    def violation(self, key, what, replay, no_input=False):
        """key: canonical string identifying the failing input/callsite/theorem."""
        k = self._match_known(key)
        if k is not None:
            self.known_hit[k["id"]] = k["what"]
            return False
        n = len(self.violations)
        path = os.path.join(VERIF, "replays", "%s_%d.json" % (self.pid, n))
        json.dump({"property": self.pid, "key": key, "what": what, "replay": replay,
                   "seed": self.seed, "tier": self.tier}, open(path, "w"), indent=1, default=str)
        self.violations.append((key, what, path, no_input))
        return True

    def finish(self, level="proof"):
        for kid, what in sorted(self.known_hit.items()):
            print("KNOWN-FINDING: property=%s %s [%s]" % (self.pid, what, kid))
        for key, what, path, no_input in self.violations:
            print("VIOLATION property=%s replay=%s %s%s" % (self.pid, path, what.replace("\n", " ")[:300],
                                                             " no-failing-input-found" if no_input else ""))
        cov = {"obligations": self.obligations, "discharged": self.discharged,
               "checker_cmd": self.checker_cmd or "n/a", "trusted_base": self.trusted,
               "theorems": self.theorems,
               "evaluations": self.evaluations, "distinct_nontrivial": len(self.distinct),
               "rule": self.rule, "samples": self.samples[:6] or ["(none)"],
               "input_distribution": self.dist,
               "known_findings_reproduced": sorted(self.known_hit)}
        cov.update(self.extra)
        ev = {"property_id": self.pid, "tier": self.tier, "seed": self.seed, "level": level, "coverage": cov,
              "assumptions": self.assumptions, "wall_s": round(time.time() - self.t0, 2),
              "violations": len(self.violations)}
        # a run retargeted at another tree (VERIF_REPO: seeded-change tests) must not overwrite the evidence of /repo
        evdir = "evidence" if os.path.realpath(REPO) == "/repo" else "evidence_other_tree"
        os.makedirs(os.path.join(VERIF, evdir), exist_ok=True)
        json.dump(ev, open(os.path.join(VERIF, evdir, "%s.json" % self.pid), "w"), indent=1, default=str)
        print("%s tier=%s seed=%d obligations=%d discharged=%d evaluations=%d distinct=%d known=%d violations=%d wall=%.1fs" % (
            self.pid, self.tier, self.seed, self.obligations, self.discharged, self.evaluations, len(self.distinct),
            len(self.known_hit), len(self.violations), time.time() - self.t0))
        return 1 if self.violations else 0

# ------------------------------------------------------------------ in-process batch compiles (hook `batch`)

_TAG = re.compile(r"<[^>]+>")

def html_text(s):
    import html
    return html.unescape(_TAG.sub("", s or ""))

def batch_compile(reqs, nproc=None, timeout=600):
    """reqs: list of dict(id, file, mode in {'t','native','wasm'}, out?, keep?). Several long-lived hook processes
    each handle a slice sequentially (process start-up is the bottleneck in this sandbox, not CPU).
    Returns {id: dict(ok, panic, out(text))}. A request whose process died is reported with panic='process died'."""
    hook = build_hook("batch")
    im = impl()
    nproc = nproc or min(NCPU, max(1, len(reqs) // 4))
    slices = [reqs[i::nproc] for i in range(nproc)]
    env = dict(os.environ, FERRET_LIBS_PATH=im.libs, NO_COLOR="1")
    def runslice(sl):
        res = {}
        todo = list(sl)
        while todo:
            inp = "".join(json.dumps(r) + "\n" for r in todo).encode()
            try:
                p = subprocess.run([hook], input=inp, stdout=subprocess.PIPE, stderr=subprocess.PIPE, env=env, timeout=timeout,
                                   preexec_fn=limit_mem())
                out = p.stdout; err = p.stderr.decode("utf8", "replace"); rc = p.returncode
            except subprocess.TimeoutExpired as e:
                out = e.stdout or b""; err = "TIMEOUT"; rc = -9
            done = 0
            for line in out.decode("utf8", "replace").splitlines():
                try:
                    j = json.loads(line)
                except ValueError:
                    continue
                res[j["id"]] = dict(ok=j["ok"], panic=j["panic"], out=html_text(j["out"]))
                done += 1
            if done < len(todo) and rc == 3 and done > 0 and "timeout" in (res[todo[done - 1]["id"]].get("panic") or ""):
                todo = todo[done:]            # the hook answered `timeout` for todo[done-1] and exited on purpose
            elif done < len(todo):
                # the process died (fatal error / os.Exit / timeout) while handling todo[done]
                r = todo[done]
                res[r["id"]] = dict(ok=False, panic="process died rc=%s: %s ... %s" % (rc, err[:1200], err[-600:]), out="")
                todo = todo[done + 1:]
            else:
                todo = []
        return res
    allres = {}
    for r in pmap(runslice, slices, workers=nproc):
        allres.update(r)
    return allres

def batch_typecheck_sources(sources, work, prefix="c"):
    """sources: list of str (single-file programs). Returns list of dict(ok, panic, out) in order."""
    reqs = []
    for i, s in enumerate(sources):
        d = work.sub("%s%d" % (prefix, i))
        f = os.path.join(d, "main.fer")
        open(f, "w").write(s)
        reqs.append(dict(id=i, file=f, mode="t", timeout_ms=20000))
    res = batch_compile(reqs)
    return [res[i] for i in range(len(sources))]
