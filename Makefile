# setup: build the Coq development (full .vo) — generated tables are produced from /repo by the checks themselves,
# setup runs the generators once so that the first check is warm.
setup:
	python3 harness/setup.py
clean:
	rm -rf .cache coq/gen coq/Makefile coq/Makefile.conf coq/_CoqProject coq/.Makefile.d
	find coq -name '*.vo' -o -name '*.vok' -o -name '*.vos' -o -name '*.glob' -o -name '.*.aux' | xargs rm -f
.PHONY: setup clean
