import json,sys
pid=sys.argv[1]
extra=open(sys.argv[2]).read() if len(sys.argv)>2 else ""
for l in open('/verif/properties.jsonl'):
    p=json.loads(l)
    if p['id']==pid: break
print(f"""You are a verification engineer. Build the complete check for property {pid} of the Ferret compiler inside the shared framework /verif. Work autonomously; nobody will answer questions. You have about 3 hours of wall-clock time; deliver incrementally (first a model + correspondence check that passes on the unchanged tree and detects realistic breakage, then proofs, then polish).

FIRST read /verif/BUILDING.md completely (rules, file ownership, how to run things), then /verif/DESIGN.md sections 1-3 and the section "### {pid}" in section 5, and the C11 worked example it points to. Your memory of Coq 8.16 / std++ idioms matters: keep proofs robust and small; prefer many small lemmas.

The property (fixed text, do not reinterpret it more weakly):
{json.dumps(p, indent=1)}

Priorities:
1. A faithful executable Gallina model (port) of the anchored code + a correspondence check against the real implementation built from the working tree, with a generator that reaches the boundary cases the property is about, and a spec-side oracle so that a genuine violation of the property is reported with a concrete failing input (replay). This is what detects regressions: make it sharp. Quick tier must finish in about a minute.
2. Unbounded theorems in Coq about the model, stated at full strength in coq/Props/{pid}.v (exact + Print Assumptions), with non-vacuity examples; `_partial` / `_refuted` naming as in BUILDING.md. No Admitted/Axiom anywhere. Prove the core algebra first; if a proof is taking too long, state the weaker proved theorem honestly and move on.
3. Findings: genuine defects of the current tree are either repaired by a minimal patch file under /verif/fixes (never edit /repo) with the model written for the repaired behaviour, or recorded as open known findings so the check exits 0 and prints KNOWN-FINDING lines. Never hide a defect by weakening the check.
4. Self-test with 2-4 realistic mutations in a scratch git worktree via VERIF_REPO, as described in BUILDING.md; remove the worktree afterwards.

{extra}
Finish with the short final report described in BUILDING.md (it is read by the lead engineer, not by a user).""")
