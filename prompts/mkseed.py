import json,sys
pid=sys.argv[1]; n=sys.argv[2] if len(sys.argv)>2 else "a"
for l in open('/verif/properties.jsonl'):
    p=json.loads(l)
    if p['id']==pid: break
import glob,os
prior=[]
for d in sorted(glob.glob('/verif/seeded/%s*'%pid)):
    try: prior.append("- "+json.load(open(d+'/meta.json'))['summary'][:400])
    except Exception: pass
priortxt=("\n\nEarlier testers already tried the following changes for this property; choose a DIFFERENT site and a different kind of mistake (ideally a different file or function):\n"+"\n".join(prior)) if (n>="e" and prior) else ""
wt="/tmp/seed_%s%s"%(pid,n)
out="/tmp/seed_out/%s%s"%(pid,n)
print(f"""You are testing how robust a software project's safeguards are. The project is the Ferret compiler (a statically typed language compiler written in Go with a C runtime). You work ONLY in your own scratch git worktree of it at {wt} (create it with: git -C /repo worktree add --detach {wt}). Do not read or write anything under /verif, do not modify /repo itself, and do not look at other directories under /tmp.

Here is a semantic property that the project is supposed to satisfy:

  Title: {p['title']}
  Statement: {p['statement']}
  Quantified over: {p['quantifier']['text']}
  Code it is anchored in: {', '.join(p['anchors']['files'])}
  Mechanisms: {'; '.join(m['name']+' ('+m['where']+')' for m in p['anchors']['mechanism'])}

YOUR TASK: write ONE realistic change to the Ferret source code (in your worktree) that BREAKS this property while (1) the project still compiles (`cd {wt} && GOFLAGS=-mod=mod GOPROXY=off go build ./...`; never set GOSUMDB=off or GOTOOLCHAIN=local) and (2) the existing test suite still passes (`cd {wt} && GOFLAGS=-mod=mod GOPROXY=off go test -vet=off -count=1 ./...`). The change should look like a plausible mistake or well-meant refactoring a developer could commit (an off-by-one, a dropped case, a wrong signedness, a missing edge, a reordered check, two cooperating sites that each look fine alone), and it must need something SPECIFIC to manifest — a particular input value, an unusual but legal program shape, a multi-step sequence of operations, a particular interleaving — not something that ordinary use (hello-world, the obvious happy path) would expose at once. Keep it small (a few lines). Variant hint for diversity: you are seeder "{n}"; if "a", prefer the core computational mechanism; if "b", prefer a boundary/rare-case or a secondary code path (a different site than the most obvious one); if "c", prefer a site that only matters for aggregate values (structs, fixed arrays, methods, by-value passing and returning), for loops over ranges with steps, or for a runtime-library helper; if "d", prefer an interaction between two features that are each fine alone; if "e" or later, prefer a rarely exercised code path, language feature or data shape that the earlier testers did not touch, where the mistake shows only after a multi-step sequence or on an unusual combination.{priortxt}

Also write a DEMONSTRATION that fails with your change and passes without it: a small Ferret program (or, for runtime-library properties, a small C or Go program / test) plus a shell script `demo.sh` taking the path of a source tree as $1 that builds what it needs from that tree and exits 0 if the property holds on the demonstration input and 1 if it is violated. How to build and run: `cd <tree> && GOFLAGS=-mod=mod GOPROXY=off go run ./tools` builds the runtime library into <tree>/libs (takes ~20 s; only run it in a scratch copy, never in /repo), `GOFLAGS=-mod=mod GOPROXY=off go build -o bin/ferret .` builds the compiler; `bin/ferret -o prog file.fer && ./prog` compiles and runs natively (flags before the file; always put spaces around binary operators; `import "std/io";` and `io::Println(x)` to print); `bin/ferret -t file.fer` type-checks only (exit status 1 on errors); `bin/ferret -target wasm -o p.wasm file.fer` for wasm. Look at {wt}/smoke_test/*.fer for language syntax. The machine is shared and slow; builds can take a few minutes. Run demo.sh against BOTH an unmodified copy (must exit 0) and your modified tree (must exit 1) and report the outputs.

DELIVERABLES in {out}/ (create it): patch.diff (output of `git -C {wt} diff`), the demonstration files (demo.sh + inputs), and meta.json with keys: property ("{pid}"), summary (one sentence: what the change does), needs (what specific input / sequence / shape it needs in order to manifest), files_changed, demo_cmd, demo_result_unmodified, demo_result_modified, tests_pass (true/false), build_ok (true/false). Finally remove your worktree (git -C /repo worktree remove --force {wt}) and any scratch copies you made. Report briefly what you did.""")
