// C17 driver: executes operation histories (stdin, one op per line) against the real runtime/core/array.c,
// runtime/libs/len.c and runtime/libs/append.c, printing every result.  Built with ASan+UBSan.
//
//   H <id>                 start a history (destroys the previous array)
//   new <esize> <initcap>  -> "new <cap>"
//   app <hex>              -> "app 0|1 <cap>"        (ferret_array_append)
//   app2 <hex>             -> "app 0|1 <cap>"        (ferret_append_array, runtime/libs/append.c)
//   get <idx>              -> "get N <cap>" | "get S <hex> <cap>"
//   set <idx> <hex>        -> "set 0|1 <cap>"
//   len                    -> "len <ferret_array_len> <ferret_len_array> <cap>"
// Element buffers are exact-size heap blocks freed right after the call.
#include <stdio.h>
#include <stdlib.h>
#include <string.h>
#include <stdint.h>
#include <stdbool.h>
#include "array.h"

int32_t ferret_len_array(void* arr);
bool ferret_append_array(void* arr, const void* elem);

static ferret_array_t* arr = NULL;
static size_t esize = 0;

static void die(const char* m) { printf("DRIVER-ERROR %s\n", m); fflush(stdout); exit(3); }
static uint8_t* unhex(const char* s) {
    if (strcmp(s, "-") == 0) { if (esize) die("elem size"); return (uint8_t*)malloc(0); }
    size_t n = strlen(s) / 2;
    if (n != esize) die("elem size");
    uint8_t* b = (uint8_t*)malloc(n);
    for (size_t i = 0; i < n; i++) { unsigned x; sscanf(s + 2 * i, "%2x", &x); b[i] = (uint8_t)x; }
    return b;
}
static void puthex(const uint8_t* b, size_t n) {
    if (n == 0) { putchar('-'); return; }
    for (size_t i = 0; i < n; i++) printf("%02x", b[i]);
}

int main(void) {
    static char line[1 << 16];
    setvbuf(stdout, NULL, _IOFBF, 1 << 16);
    while (fgets(line, sizeof line, stdin)) {
        char* save; char* cmd = strtok_r(line, " \n", &save);
        if (!cmd) continue;
        if (!strcmp(cmd, "H")) {
            if (arr) { ferret_array_destroy(arr); arr = NULL; }
            printf("H %s\n", strtok_r(NULL, " \n", &save));
        } else if (!strcmp(cmd, "new")) {
            if (arr) { ferret_array_destroy(arr); arr = NULL; }
            esize = (size_t)atol(strtok_r(NULL, " \n", &save));
            int32_t cap = (int32_t)atol(strtok_r(NULL, " \n", &save));
            arr = ferret_array_new(esize, cap);
            if (!arr) die("allocation");
            printf("new %d\n", (int)ferret_array_cap(arr));
        } else if (!strcmp(cmd, "app") || !strcmp(cmd, "app2")) {
            uint8_t* e = unhex(strtok_r(NULL, " \n", &save));
            bool ok = strcmp(cmd, "app") ? ferret_append_array(arr, e) : ferret_array_append(arr, e);
            free(e);
            printf("app %d %d\n", ok ? 1 : 0, (int)ferret_array_cap(arr));
        } else if (!strcmp(cmd, "get")) {
            int32_t idx = (int32_t)atoll(strtok_r(NULL, " \n", &save));
            void* p = ferret_array_get(arr, idx);
            if (p) { printf("get S "); puthex((uint8_t*)p, esize); printf(" %d\n", (int)ferret_array_cap(arr)); }
            else printf("get N %d\n", (int)ferret_array_cap(arr));
        } else if (!strcmp(cmd, "set")) {
            int32_t idx = (int32_t)atoll(strtok_r(NULL, " \n", &save));
            uint8_t* e = unhex(strtok_r(NULL, " \n", &save));
            bool ok = ferret_array_set(arr, idx, e);
            free(e);
            printf("set %d %d\n", ok ? 1 : 0, (int)ferret_array_cap(arr));
        } else if (!strcmp(cmd, "len")) {
            printf("len %d %d %d\n", (int)ferret_array_len(arr), (int)ferret_len_array(arr), (int)ferret_array_cap(arr));
        } else die("unknown op");
        fflush(stdout);
    }
    if (arr) ferret_array_destroy(arr);
    printf("END\n");
    return 0;
}
