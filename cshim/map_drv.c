// C17 driver: executes operation histories (stdin, one op per line) against the real runtime/core/map.c,
// runtime/core/optional.c and runtime/libs/len.c, printing every result.  Built with ASan+UBSan.
//
//   H <id>                          start a history (destroys the previous map, frees its key strings)
//   new <kind> <ksize> <vsize>      kind = i32 | i64 | str | bytes        -> "new"
//   fp <kind> <ksize> <vsize> <n> <k1> <v1> ... <kn> <vn>                 -> "fp"      (ferret_map_from_pairs_<kind>)
//   set <k> <v>                     -> "set 0|1"
//   get <k>                         -> "get N" | "get S <v>"               (ferret_map_get)
//   opt <k> <d>                     -> "opt <buf> <unwrapped>"             (get_optional_out + optional_unwrap_or)
//   has <k>                         -> "has 0|1"
//   size                            -> "size <ferret_map_size> <ferret_len_map>"
//   iter                            -> "iter <k>:<v> ..."                  (iter_begin result ignored, as the compiler does)
// keys / values are hex strings of their bytes ("-" = empty).  Every buffer handed to the runtime is an exact-size
// heap block that is freed right after the call, so that any over-read or retained pointer is an ASan report.
// String keys are NUL-terminated heap strings that live until the end of the history (the map stores the char*,
// like every Ferret string variable does); lookups use a fresh copy of the string.
#include <stdio.h>
#include <stdlib.h>
#include <string.h>
#include <stdint.h>
#include <stdbool.h>
#include "map.h"

#if defined(__has_feature)
#if __has_feature(address_sanitizer)
#include <sanitizer/asan_interface.h>
#define HAVE_ASAN 1
#endif
#endif

int32_t ferret_len_map(void* map);
void ferret_optional_unwrap_or(const void* opt, const void* default_val, void* out, uint64_t val_size);

static char canary[64] __attribute__((aligned(16)));

static ferret_map_t* map = NULL;
static int kind = 0;            // 0 i32, 1 i64, 2 str, 3 bytes
static size_t ksize = 0, vsize = 0;
static char** strs = NULL; static size_t nstrs = 0, capstrs = 0;

static void die(const char* m) { printf("DRIVER-ERROR %s\n", m); fflush(stdout); exit(3); }

static size_t unhex(const char* s, uint8_t** out) {
    if (strcmp(s, "-") == 0) { *out = (uint8_t*)malloc(0); return 0; }
    size_t n = strlen(s) / 2;
    uint8_t* b = (uint8_t*)malloc(n);
    for (size_t i = 0; i < n; i++) { unsigned x; sscanf(s + 2 * i, "%2x", &x); b[i] = (uint8_t)x; }
    *out = b; return n;
}
static void puthex(const uint8_t* b, size_t n) {
    if (n == 0) { putchar('-'); return; }
    for (size_t i = 0; i < n; i++) printf("%02x", b[i]);
}
static char* keep_str(const uint8_t* b, size_t n) {
    char* s = (char*)malloc(n + 1); memcpy(s, b, n); s[n] = 0;
    if (nstrs == capstrs) { capstrs = capstrs ? capstrs * 2 : 64; strs = (char**)realloc(strs, capstrs * sizeof(char*)); }
    strs[nstrs++] = s; return s;
}
static void reset(void) {
    if (map) { ferret_map_destroy(map); map = NULL; }
    for (size_t i = 0; i < nstrs; i++) free(strs[i]);
    nstrs = 0;
}
// builds the key argument: an exact-size heap block holding the key (for str: a char* to a string)
static void* mk_key(const char* hex, bool persistent, char** tmpstr) {
    uint8_t* b; size_t n = unhex(hex, &b);
    *tmpstr = NULL;
    if (kind == 2) {
        char* s;
        if (persistent) s = keep_str(b, n);
        else { s = (char*)malloc(n + 1); memcpy(s, b, n); s[n] = 0; *tmpstr = s; }
        free(b);
        char** p = (char**)malloc(sizeof(char*)); *p = s; return p;
    }
    if (n != ksize) die("key size");
    return b;
}
static void* mk_val(const char* hex) {
    uint8_t* b; size_t n = unhex(hex, &b);
    if (n != vsize) die("value size");
    return b;
}
static int parse_kind(const char* s) {
    if (!strcmp(s, "i32")) return 0; if (!strcmp(s, "i64")) return 1; if (!strcmp(s, "str")) return 2;
    if (!strcmp(s, "bytes")) return 3; die("kind"); return 0;
}
static void print_key(const void* kp) {
    if (kind == 2) { const char* s = *(const char* const*)kp; puthex((const uint8_t*)s, strlen(s)); }
    else puthex((const uint8_t*)kp, ksize);
}

int main(void) {
    static char line[1 << 20];
    setvbuf(stdout, NULL, _IOFBF, 1 << 16);
#ifdef HAVE_ASAN
    ASAN_POISON_MEMORY_REGION(canary, sizeof canary);
#endif
    while (fgets(line, sizeof line, stdin)) {
        char* save; char* cmd = strtok_r(line, " \n", &save);
        if (!cmd) continue;
        if (!strcmp(cmd, "H")) {
            reset(); printf("H %s\n", strtok_r(NULL, " \n", &save));
        } else if (!strcmp(cmd, "new") || !strcmp(cmd, "fp")) {
            reset();
            kind = parse_kind(strtok_r(NULL, " \n", &save));
            ksize = (size_t)atol(strtok_r(NULL, " \n", &save));
            vsize = (size_t)atol(strtok_r(NULL, " \n", &save));
            if (!strcmp(cmd, "new")) {
                map = kind == 0 ? ferret_map_new_i32(ksize, vsize) : kind == 1 ? ferret_map_new_i64(ksize, vsize)
                    : kind == 2 ? ferret_map_new_str(ksize, vsize) : ferret_map_new_bytes(ksize, vsize);
                printf("new\n");
            } else {
                size_t n = (size_t)atol(strtok_r(NULL, " \n", &save));
                uint8_t* keys = (uint8_t*)malloc(n * ksize); uint8_t* vals = (uint8_t*)malloc(n * vsize);
                for (size_t i = 0; i < n; i++) {
                    uint8_t* b; size_t kn = unhex(strtok_r(NULL, " \n", &save), &b);
                    if (kind == 2) { char* s = keep_str(b, kn); memcpy(keys + i * ksize, &s, sizeof s); }
                    else { if (kn != ksize) die("key size"); memcpy(keys + i * ksize, b, ksize); }
                    free(b);
                    uint8_t* v = (uint8_t*)mk_val(strtok_r(NULL, " \n", &save));
                    memcpy(vals + i * vsize, v, vsize); free(v);
                }
                map = kind == 0 ? ferret_map_from_pairs_i32(ksize, vsize, keys, vals, n)
                    : kind == 1 ? ferret_map_from_pairs_i64(ksize, vsize, keys, vals, n)
                    : kind == 2 ? ferret_map_from_pairs_str(ksize, vsize, keys, vals, n)
                    : ferret_map_from_pairs_bytes(ksize, vsize, keys, vals, n);
                free(keys); free(vals);
                printf("fp\n");
            }
            if (!map) die("allocation");
        } else if (!strcmp(cmd, "set")) {
            char* tmp; void* k = mk_key(strtok_r(NULL, " \n", &save), true, &tmp);
            void* v = mk_val(strtok_r(NULL, " \n", &save));
            bool ok = ferret_map_set(map, k, v);
            free(k); free(v);
            printf("set %d\n", ok ? 1 : 0);
        } else if (!strcmp(cmd, "get") || !strcmp(cmd, "has") || !strcmp(cmd, "opt")) {
            char* tmp; void* k = mk_key(strtok_r(NULL, " \n", &save), false, &tmp);
            if (!strcmp(cmd, "get")) {
                void* r = ferret_map_get(map, k);
                if (r) { printf("get S "); puthex((uint8_t*)r, vsize); printf("\n"); } else printf("get N\n");
            } else if (!strcmp(cmd, "has")) {
                printf("has %d\n", ferret_map_has(map, k) ? 1 : 0);
            } else {
                void* d = mk_val(strtok_r(NULL, " \n", &save));
                uint8_t* out = (uint8_t*)malloc(vsize + 1); memset(out, 0xEE, vsize + 1);
                ferret_map_get_optional_out(map, k, out);
                uint8_t* un = (uint8_t*)malloc(vsize); memset(un, 0xCC, vsize);
                ferret_optional_unwrap_or(out, d, un, (uint64_t)vsize);
                printf("opt "); puthex(out, vsize + 1); printf(" "); puthex(un, vsize); printf("\n");
                free(out); free(un); free(d);
            }
            free(k); free(tmp);
        } else if (!strcmp(cmd, "size")) {
            printf("size %zu %d\n", ferret_map_size(map), (int)ferret_len_map(map));
        } else if (!strcmp(cmd, "iter")) {
            // the compiler allocas the iterator (uninitialised stack memory), calls iter_begin ignoring its result
            // and then loops on iter_next.  Uninitialised memory is made visible: entry points into a poisoned region.
            ferret_map_iter_t it; memset(&it, 0xA5, sizeof it); it.entry = (ferret_map_entry_t*)(void*)canary;
            ferret_map_iter_begin(map, &it);
            void* kp; void* vp; size_t guard = ferret_map_size(map) + 8;
            printf("iter");
            while (ferret_map_iter_next(map, &it, &kp, &vp)) {
                if (guard-- == 0) { printf(" OVERRUN"); break; }
                printf(" "); print_key(kp); printf(":"); puthex((uint8_t*)vp, vsize);
            }
            printf("\n");
        } else die("unknown op");
        fflush(stdout);
    }
    reset(); free(strs);
    printf("END\n");
    return 0;
}
