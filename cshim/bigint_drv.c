/* C16 driver: links /repo/runtime/core/bigint.c (ASan+UBSan) and executes one operation per input line.
 *   <type> <op> <A> [<B>]
 *   type: i128 u128 i256 u256
 *   A, B: hexadecimal two's-complement bit pattern of the operand, most significant digit first
 *   op:   add sub mul div mod and or xor pow   (A B)      -> hex pattern
 *         eq lt gt                             (A B)      -> 0 | 1
 *         not                                  (A)        -> hex pattern
 *         shl shr                              (A dec)    -> hex pattern   (B is a decimal C int)
 *         from64                               (hex64)    -> hex pattern   (i: from_i64, u: from_u64)
 *         to64                                 (A)        -> hex64
 *         tostr                                (A)        -> S:<text>
 *         fromstr                              (hexbytes) -> hex pattern   (A = hex encoding of the C string, "-" = empty)
 * Every operation that has both a by-value and a *_ptr entry point is executed through both; a difference
 * between the two is reported as "E:ptr-mismatch".  One process handles any number of lines. */
#include "bigint.h"
#include <stdio.h>
#include <stdlib.h>
#include <string.h>

static int hexval(int c) {
    if (c >= '0' && c <= '9') return c - '0';
    if (c >= 'a' && c <= 'f') return c - 'a' + 10;
    if (c >= 'A' && c <= 'F') return c - 'A' + 10;
    return -1;
}

static void parse_limbs(const char* s, ferret_limb_t* w, int n) {
    int len = (int)strlen(s);
    memset(w, 0, (size_t)n * sizeof(*w));
    for (int i = 0; i < len; i++) {
        int pos = len - 1 - i;            /* digit i counted from the least significant end */
        int v = hexval(s[pos]);
        if (v < 0) v = 0;
        int limb = i / 16;
        if (limb < n) w[limb] |= (ferret_limb_t)v << (4 * (i % 16));
    }
}

static void print_limbs(const ferret_limb_t* w, int n) {
    for (int i = n - 1; i >= 0; i--) printf("%016llx", (unsigned long long)w[i]);
    printf("\n");
}

static char* unhex(const char* s) {
    if (strcmp(s, "-") == 0) { char* r = malloc(1); r[0] = 0; return r; }
    size_t len = strlen(s) / 2;
    char* r = malloc(len + 1);
    for (size_t i = 0; i < len; i++) r[i] = (char)(hexval(s[2 * i]) * 16 + hexval(s[2 * i + 1]));
    r[len] = 0;
    return r;
}

#define BIN(T, NAME) \
    if (strcmp(op, #NAME) == 0) { \
        ferret_##T r = ferret_##T##_##NAME(a, b); ferret_##T r2; memset(&r2, 0x5a, sizeof r2); \
        ferret_##T##_##NAME##_ptr(&a, &b, &r2); \
        if (memcmp(&r, &r2, sizeof r) != 0) { printf("E:ptr-mismatch\n"); return; } \
        print_limbs(r.words, N); return; }

#define CMP(T, NAME) \
    if (strcmp(op, #NAME) == 0) { \
        bool r = ferret_##T##_##NAME(a, b); bool r2 = ferret_##T##_##NAME##_ptr(&a, &b); \
        if (r != r2) { printf("E:ptr-mismatch\n"); return; } \
        printf("%d\n", r ? 1 : 0); return; }

#define NOT_PTR_0(T)
#define NOT_PTR_1(T) { ferret_##T r2; memset(&r2, 0x5a, sizeof r2); ferret_##T##_not_ptr(&a, &r2); \
        if (memcmp(&r, &r2, sizeof r) != 0) { printf("E:ptr-mismatch\n"); return; } }

#define DEFINE(T, N_, SIGNED, C64, HASNOTPTR, FROM64, TO64) \
static void run_##T(const char* op, const char* sa, const char* sb) { \
    enum { N = N_ }; \
    ferret_##T a, b; \
    memset(&a, 0, sizeof a); memset(&b, 0, sizeof b); \
    if (strcmp(op, "fromstr") == 0) { \
        char* s = unhex(sa); \
        ferret_##T r = ferret_##T##_from_string(s); ferret_##T r2; memset(&r2, 0x5a, sizeof r2); \
        ferret_##T##_from_string_ptr(s, &r2); free(s); \
        if (memcmp(&r, &r2, sizeof r) != 0) { printf("E:ptr-mismatch\n"); return; } \
        print_limbs(r.words, N); return; } \
    if (strcmp(op, "from64") == 0) { \
        ferret_limb_t w[1]; parse_limbs(sa, w, 1); \
        ferret_##T r = ferret_##T##_##FROM64((C64)w[0]); ferret_##T r2; memset(&r2, 0x5a, sizeof r2); \
        ferret_##T##_##FROM64##_ptr((C64)w[0], &r2); \
        if (memcmp(&r, &r2, sizeof r) != 0) { printf("E:ptr-mismatch\n"); return; } \
        print_limbs(r.words, N); return; } \
    parse_limbs(sa, a.words, N); \
    if (strcmp(op, "shl") == 0 || strcmp(op, "shr") == 0) { \
        int k = atoi(sb); \
        ferret_##T r = (op[2] == 'l') ? ferret_##T##_shl(a, k) : ferret_##T##_shr(a, k); \
        print_limbs(r.words, N); return; } \
    if (strcmp(op, "not") == 0) { \
        ferret_##T r = ferret_##T##_not(a); \
        NOT_PTR_##HASNOTPTR(T) \
        print_limbs(r.words, N); return; } \
    if (strcmp(op, "to64") == 0) { \
        C64 r = ferret_##T##_##TO64(a); C64 r2 = ferret_##T##_##TO64##_ptr(&a); \
        if (r != r2) { printf("E:ptr-mismatch\n"); return; } \
        printf("%016llx\n", (unsigned long long)r); return; } \
    if (strcmp(op, "tostr") == 0) { \
        char* s = ferret_##T##_to_string(a); char* s2 = ferret_##T##_to_string_ptr(&a); \
        if (!s || !s2) { printf("E:null\n"); return; } \
        if (strcmp(s, s2) != 0) { printf("E:ptr-mismatch\n"); return; } \
        printf("S:%s\n", s); free(s); free(s2); return; } \
    parse_limbs(sb, b.words, N); \
    BIN(T, add) BIN(T, sub) BIN(T, mul) BIN(T, div) BIN(T, mod) BIN(T, and) BIN(T, or) BIN(T, xor) BIN(T, pow) \
    CMP(T, eq) CMP(T, lt) CMP(T, gt) \
    printf("E:bad-op\n"); \
}

DEFINE(i128, FERRET_U128_LIMBS, 1, int64_t, 0, from_i64, to_i64)
DEFINE(u128, FERRET_U128_LIMBS, 0, uint64_t, 0, from_u64, to_u64)
DEFINE(i256, FERRET_U256_LIMBS, 1, int64_t, 1, from_i64, to_i64)
DEFINE(u256, FERRET_U256_LIMBS, 0, uint64_t, 1, from_u64, to_u64)

int main(void) {
    static char line[1 << 16];
    setvbuf(stdout, NULL, _IOLBF, 0);   /* a sanitizer abort must not swallow earlier results */
    if (FERRET_LIMB_BITS != 64) { printf("E:limb-bits\n"); return 2; }
    while (fgets(line, sizeof line, stdin)) {
        char* ty = strtok(line, " \n");
        char* op = strtok(NULL, " \n");
        char* sa = strtok(NULL, " \n");
        char* sb = strtok(NULL, " \n");
        if (!ty || !op || !sa) { printf("E:bad-line\n"); continue; }
        if (!sb) sb = "0";
        if (strcmp(ty, "i128") == 0) run_i128(op, sa, sb);
        else if (strcmp(ty, "u128") == 0) run_u128(op, sa, sb);
        else if (strcmp(ty, "i256") == 0) run_i256(op, sa, sb);
        else if (strcmp(ty, "u256") == 0) run_u256(op, sa, sb);
        else printf("E:bad-type\n");
    }
    return 0;
}
